package main

import (
	"fmt"
	"go/token"
	"strings"

	"golang.org/x/tools/go/ssa"
)

func init() {
	register("C10", ruleC10EntryRecover, ruleC10HandlerTotal, ruleC10GoClosures, ruleC10ExplicitPanics, ruleC10CteReentry, ruleC10MarkerNotCopied, ruleC10LockPairing)
}

// recoverTarget: the function a Defer instruction will run, if it (directly) calls recover().
func recoverTarget(d *ssa.Defer) *ssa.Function {
	var target *ssa.Function
	switch v := d.Call.Value.(type) {
	case *ssa.MakeClosure:
		target = v.Fn.(*ssa.Function)
	case *ssa.Function:
		target = v
	}
	if target != nil && callsRecover(target) {
		return target
	}
	return nil
}

// firstRecoverDefer: fn defers a recover handler in its entry block before any call that could
// panic (only allocations, closure creation, stores to its own cells and other defers may
// precede it). Returns the handler.
func firstRecoverDefer(fn *ssa.Function) (*ssa.Function, string) {
	if len(fn.Blocks) == 0 {
		return nil, "no body"
	}
	// on every path from the entry, a recover handler is deferred before anything that can panic; the paths may
	// branch (a conditional `defer wg.Done()` in front of it, say) as long as nothing that can panic is evaluated
	var handler *ssa.Function
	why := ""
	seen := map[*ssa.BasicBlock]bool{}
	var visit func(b *ssa.BasicBlock)
	visit = func(b *ssa.BasicBlock) {
		if seen[b] || why != "" {
			return
		}
		seen[b] = true
		for _, in := range b.Instrs {
			switch in := in.(type) {
			case *ssa.Defer:
				if h := recoverTarget(in); h != nil {
					if handler == nil {
						handler = h
					}
					return
				}
				// another defer (e.g. wg.Done): fine, keeps looking
			case *ssa.Alloc, *ssa.MakeClosure, *ssa.Store, *ssa.DebugRef, *ssa.FieldAddr, *ssa.UnOp, *ssa.MakeInterface, *ssa.Phi, *ssa.ChangeType, *ssa.BinOp:
			case *ssa.If, *ssa.Jump:
				for _, s := range b.Succs {
					visit(s)
				}
				return
			case *ssa.Call:
				why = "the call " + calleeName(in.Common()) + " precedes any deferred recover handler"
				return
			case *ssa.Return, *ssa.RunDefers:
				if b == fn.Blocks[0] {
					why = "the entry block defers no recover handler"
				} else {
					why = "a path through the function defers no recover handler"
				}
				return
			default:
				why = fmt.Sprintf("%T precedes any deferred recover handler", in)
				return
			}
		}
	}
	visit(fn.Blocks[0])
	if why != "" {
		return nil, why
	}
	if handler == nil {
		return nil, "the entry block defers no recover handler"
	}
	return handler, ""
}

// goTargetSignals: the started function signals a WaitGroup (calls or defers Done) for the arguments of this very go
// statement (a constant argument may switch the signalling off: the untracked flavour of a shared goroutine body).
func goTargetSignals(target *ssa.Function, g *ssa.Go) bool {
	bind := map[ssa.Value]AV{}
	for i, p := range target.Params {
		if i < len(g.Call.Args) {
			if k, ok := g.Call.Args[i].(*ssa.Const); ok && k.Value != nil {
				bind[p] = AV{C: k.Value, T: constTerm(k)}
			}
		}
	}
	if len(bind) == 0 {
		return true
	}
	paths, err := WalkFunc(target, WalkCfg{MaxVisits: 1, MaxPaths: 2000, NoInline: true, Bind: bind})
	if err != nil {
		return true
	}
	for _, p := range paths {
		for _, e := range p.Effects {
			if (e.Kind == "call" || e.Kind == "defer") && strings.HasSuffix(e.Callee, "(*sync.WaitGroup).Done") {
				return true
			}
		}
	}
	return false
}

func ruleC10EntryRecover(c *Ctx) {
	c.Doc("c10.entry-recover", "the API entries New, Prepare and (*Query).Exec defer, as their first action, a handler that calls recover() and on a recovered panic stores a non-nil error into the entry's error result: every panic on the calling goroutine (parser, build path, execution, post-processors) becomes an error")
	c.NotDecidedClause("C10: termination of arbitrary loops/recursion beyond the re-entrancy guard of CTE thunks (the hand-written scanners' progress is not decided); memory exhaustion; formatting a row with %v while its <- back-reference is in scope when a query compares whole documents reached through `<-` (value-level)")
	for _, e := range []struct {
		name string
		fn   *ssa.Function
	}{{"New", c.P.Func(modPath, "New")}, {"(*Query).Exec", c.P.Method(modPath, "Query", "Exec")},
		// the other exported entry that builds a query (joins, derived tables and CTE references run while it builds)
		{"Prepare", c.P.Func(modPath, "Prepare")}} {
		if e.fn == nil {
			c.Unknown("c10.entry-recover", e.name, "-", "anchor lost")
			continue
		}
		c.Fn(e.name)
		c.Anchor("API entry", e.name+" "+c.P.Pos(e.fn.Pos()))
		h, why := firstRecoverDefer(e.fn)
		if h == nil {
			c.Fail("c10.entry-recover", e.name, c.P.Pos(e.fn.Pos()), why+": a panic anywhere below escapes the API")
			continue
		}
		// the handler stores a non-nil error into a captured error variable on the recovered path
		stores := false
		allInstrs(h, func(_ *ssa.BasicBlock, in ssa.Instruction) {
			if st, ok := in.(*ssa.Store); ok {
				if _, isFV := st.Addr.(*ssa.FreeVar); isFV && isErrorT(st.Val.Type()) && !isNilConst(st.Val) {
					stores = true
				}
			}
		})
		if !stores {
			// a handler shared by the entries: `defer recoverToError(&result, &err)` -- it stores a non-nil error through a
			// pointer parameter, and this entry passes the address of its own error result for that parameter
			if ei := errIdx(e.fn); ei >= 0 {
				cell := resultCell(e.fn, ei)
				allInstrs(e.fn, func(_ *ssa.BasicBlock, in ssa.Instruction) {
					d, ok := in.(*ssa.Defer)
					if !ok || recoverTarget(d) != h || cell == nil {
						return
					}
					allInstrs(h, func(_ *ssa.BasicBlock, hin ssa.Instruction) {
						st, ok := hin.(*ssa.Store)
						if !ok || !isErrorT(st.Val.Type()) || isNilConst(st.Val) {
							return
						}
						for i, p := range h.Params {
							if st.Addr == ssa.Value(p) && i < len(d.Call.Args) && d.Call.Args[i] == ssa.Value(cell) {
								stores = true
							}
						}
					})
				})
			}
		}
		c.Check(stores, "c10.entry-recover", e.name, c.P.Pos(e.fn.Pos()), "first action defers a recover handler that sets the error result", "the deferred recover handler does not store a non-nil error into the entry's error result")
	}
}

func ruleC10HandlerTotal(c *Ctx) {
	c.Doc("c10.handler-total", "no function that calls recover() applies a single-result type assertion to the recovered value, and none panics explicitly: a handler cannot re-panic on panic(\"text\")")
	n := 0
	for _, f := range c.P.ModFuncs {
		if len(f.Blocks) == 0 || !callsRecover(f) {
			continue
		}
		n++
		key := c.P.funcKey(f)
		c.Fn(key)
		ok, why := true, ""
		allInstrs(f, func(_ *ssa.BasicBlock, in ssa.Instruction) {
			switch in := in.(type) {
			case *ssa.TypeAssert:
				if !in.CommaOk {
					t := NewTB().Of(in.X)
					if t.Contains(func(x *Term) bool { return x.Op == "call" && x.Name == "builtin:recover" }) {
						ok, why = false, "single-result assertion "+shortType(in.AssertedType)+" on the recovered value at "+c.P.Pos(in.Pos())+" re-panics for non-error panic values"
					}
				}
			case *ssa.Panic:
				ok, why = false, "explicit panic inside a recover handler at "+c.P.Pos(in.Pos())
			}
		})
		// the handler recovers on every way through it: a return that is reached without calling recover() (an early exit
		// "when there is nobody to report to") lets the panic it was deferred for go on — in a goroutine that kills the process
		var recBlocks []*ssa.BasicBlock
		allInstrs(f, func(b *ssa.BasicBlock, in ssa.Instruction) {
			if call, isCall := in.(*ssa.Call); isCall {
				if bi, isB := call.Call.Value.(*ssa.Builtin); isB && bi.Name() == "recover" {
					recBlocks = append(recBlocks, b)
				}
			}
		})
		allInstrs(f, func(b *ssa.BasicBlock, in ssa.Instruction) {
			if _, isRet := in.(*ssa.Return); !isRet {
				return
			}
			dominated := false
			for _, rb := range recBlocks {
				if rb == b || rb.Dominates(b) {
					dominated = true
				}
			}
			if !dominated && len(recBlocks) > 0 {
				ok, why = false, "the handler can return at "+c.P.Pos(in.Pos())+" without having called recover(): on that path the panic is not stopped"
			}
		})
		c.Check(ok, "c10.handler-total", key, c.P.Pos(f.Pos()), "recovered value handled without a panicking assertion; recover() on every path", why)
	}
	if n < 3 {
		c.Unknown("c10.handler-total", "handlers", "-", fmt.Sprintf("only %d recover handlers found (New, Exec, exec, Sort expected)", n))
	}
}

var goAllowList = map[string]bool{"(*sync.WaitGroup).Wait": true, "(*sync.WaitGroup).Done": true, "(*sync.WaitGroup).Add": true,
	"builtin:len": true} // len never panics (the header of a range over a slice)

func ruleC10GoClosures(c *Ctx) {
	c.Doc("c10.go-closure", "every `go` statement in the module starts a function that either defers a recover handler before anything that can panic, or calls nothing but sync.WaitGroup methods; if it signals a WaitGroup, Done is deferred (or nothing else is called), so a recovered panic cannot leave Wait blocked; wg.Add precedes the go statement")
	n := 0
	for _, f := range c.P.ModFuncs {
		if len(f.Blocks) == 0 {
			continue
		}
		k := 0
		for _, b := range f.Blocks {
			for _, in := range b.Instrs {
				g, ok := in.(*ssa.Go)
				if !ok {
					continue
				}
				n++
				k++
				var target *ssa.Function
				switch v := g.Call.Value.(type) {
				case *ssa.MakeClosure:
					target = v.Fn.(*ssa.Function)
				case *ssa.Function:
					target = v
				}
				key := fmt.Sprintf("%s/go#%d", c.P.funcKey(f), k)
				c.Fn(c.P.funcKey(f))
				if target == nil {
					c.Unknown("c10.go-closure", key, c.P.Pos(g.Pos()), "go statement with a dynamic target")
					continue
				}
				// inventory of calls in the target
				onlyAllowed := true
				var other string
				doneDeferred, doneCalled := false, false
				allInstrs(target, func(_ *ssa.BasicBlock, tin ssa.Instruction) {
					var cc *ssa.CallCommon
					isDefer := false
					switch tin := tin.(type) {
					case *ssa.Call:
						cc = tin.Common()
					case *ssa.Defer:
						cc, isDefer = tin.Common(), true
					case *ssa.Go:
						cc = tin.Common()
					case *ssa.Panic:
						onlyAllowed, other = false, "explicit panic"
					case *ssa.TypeAssert:
						if !tin.CommaOk {
							onlyAllowed, other = false, "unchecked type assertion"
						}
					case *ssa.Index, *ssa.IndexAddr, *ssa.Slice, *ssa.MapUpdate, *ssa.Lookup:
						// may panic (bounds, nil map)
						if _, isLookup := tin.(*ssa.Lookup); !isLookup {
							// the element read of `for _, x := range s` is in bounds by construction
							if ia, isIA := tin.(*ssa.IndexAddr); isIA {
								if _, why := fullRangeIndex(ia); why == "" {
									break
								}
							}
							onlyAllowed, other = false, "index/slice/map update"
						}
					}
					if cc == nil {
						return
					}
					name := calleeName(cc)
					if strings.HasSuffix(name, "(*sync.WaitGroup).Done") {
						doneCalled = true
						if isDefer {
							doneDeferred = true
						}
					}
					if !goAllowList[strings.TrimPrefix(name, "closure:")] {
						if isDefer && recoverTarget(tin.(*ssa.Defer)) != nil {
							return
						}
						// a plain call of a module function that defers a recover handler before anything else (the body of
						// the goroutine moved into a function of its own): a panic in there does not come back to this frame
						if _, isCall := tin.(*ssa.Call); isCall && !cc.IsInvoke() && cc.StaticCallee() != nil && c.P.InModule(cc.StaticCallee()) && len(cc.StaticCallee().Blocks) > 0 {
							if h, _ := firstRecoverDefer(cc.StaticCallee()); h != nil {
								return
							}
						}
						onlyAllowed, other = false, "call of "+name
					}
				})
				h, why := firstRecoverDefer(target)
				switch {
				case onlyAllowed:
					c.Pass("c10.go-closure", key, c.P.Pos(g.Pos()), "calls only WaitGroup methods: cannot panic")
				case h == nil:
					c.Fail("c10.go-closure", key, c.P.Pos(g.Pos()), "the goroutine can panic ("+other+") and has no recover handler ("+why+"): a panic kills the host process")
				case doneCalled && !doneDeferred:
					c.Fail("c10.go-closure", key, c.P.Pos(g.Pos()), "the goroutine recovers panics but calls WaitGroup.Done without defer: after a panic the query waits for ever")
				default:
					c.Pass("c10.go-closure", key, c.P.Pos(g.Pos()), "defers a recover handler first; Done deferred")
				}
				// ... and the converse: a call counted with wg.Add right before the go statement is signalled by the goroutine
				// (directly or in a helper it calls) — otherwise whoever waits for the group waits for ever
				addBefore := false
				for _, pin := range b.Instrs {
					if pin == ssa.Instruction(g) {
						break
					}
					if _, isGo := pin.(*ssa.Go); isGo {
						addBefore = false
					}
					if call, ok := pin.(*ssa.Call); ok && strings.HasSuffix(calleeName(call.Common()), "(*sync.WaitGroup).Add") {
						addBefore = true
					}
				}
				if addBefore {
					signals := false
					deepInstrs(target, func(_ *ssa.Function, _ *TB, _ *ssa.BasicBlock, tin ssa.Instruction) {
						if ci, ok := tin.(ssa.CallInstruction); ok && strings.HasSuffix(calleeName(ci.Common()), "(*sync.WaitGroup).Done") {
							signals = true
						}
					})
					c.Check(signals && goTargetSignals(target, g), "c10.go-closure", key+"/done-after-add", c.P.Pos(g.Pos()), "the goroutine counted with wg.Add signals Done", "wg.Add precedes the go statement but the goroutine never calls Done: Exec waits for the group for ever")
				}
				// Add precedes go when the target signals a WaitGroup
				if doneCalled && goTargetSignals(target, g) {
					okAdd := false
					for _, pin := range b.Instrs {
						if pin == ssa.Instruction(g) {
							break
						}
						if call, ok := pin.(*ssa.Call); ok && strings.HasSuffix(calleeName(call.Common()), "(*sync.WaitGroup).Add") {
							okAdd = true
						}
					}
					if !okAdd {
						// the counted form: wg.Add(len(xs)) once in front of `for ... range xs`, one go statement per round
						okAdd = addCountsRounds(f, b, g)
					}
					c.Check(okAdd, "c10.go-closure", key+"/add-before-go", c.P.Pos(g.Pos()), "wg.Add precedes the go statement in the same block (or counts the rounds of the loop in front of it)", "the goroutine calls Done but no wg.Add precedes the go statement in its block")
				}
			}
		}
	}
	c.Notes = append(c.Notes, fmt.Sprintf("c10.go-closure: %d go statements in the module", n))
	if n < 5 {
		c.Unknown("c10.go-closure", "go-inventory", "-", fmt.Sprintf("only %d go statements found (>= 5 expected: 3 strategies, 2 parallel joins)", n))
	}
}

func ruleC10ExplicitPanics(c *Ctx) {
	c.Doc("c10.no-explicit-panic", "every explicit panic in the module is inside a closure handed to a synchronous call by a function that defers a recover handler (the sort comparator); anywhere else it can escape or kill a goroutine")
	n := 0
	for _, f := range c.P.ModFuncs {
		allInstrs(f, func(_ *ssa.BasicBlock, in ssa.Instruction) {
			p, ok := in.(*ssa.Panic)
			if !ok {
				return
			}
			n++
			key := c.P.funcKey(f) + "/panic"
			c.Fn(c.P.funcKey(f))
			c.Check(panicIsConverted(f), "c10.no-explicit-panic", key, c.P.Pos(p.Pos()), "under the parent's deferred recover", "explicit panic in "+c.P.funcKey(f)+" is not under a recover handler of its synchronous caller")
		})
	}
	c.Notes = append(c.Notes, fmt.Sprintf("c10.no-explicit-panic: %d explicit panics", n))
	if n == 0 {
		c.PassTrivial("c10.no-explicit-panic", "module", "-", "no explicit panic in the module")
	}
}

// ruleC10CteReentry: the CTE thunk replaces its own registry entry before evaluating its body.
func ruleC10CteReentry(c *Ctx) {
	c.Doc("c10.cte-reentry", "the lazy CTE thunk (the closure registered by the function that takes *sqlparser.With) performs, on every path and before the first call that can evaluate the CTE body, a map update of its own registry entry (same map, same key as the registration): a self- or mutually-referencing CTE meets the guard instead of recursing until the runtime aborts the process")
	f := c.theFunc("CTE builder", "*sqlparser.With", "BuildCte")
	if f == nil {
		c.Unknown("c10.cte-reentry", "BuildCte", "-", "anchor lost: no function takes *sqlparser.With")
		return
	}
	// registration: MapUpdate whose value is a closure
	var reg *ssa.MapUpdate
	var thunk *ssa.Function
	var regMc *ssa.MakeClosure
	var regVia *ssa.Call
	allInstrs(f, func(_ *ssa.BasicBlock, in ssa.Instruction) {
		mu, ok := in.(*ssa.MapUpdate)
		if !ok {
			return
		}
		if mc, via := closureVia(mu.Value); mc != nil {
			reg, thunk, regMc, regVia = mu, mc.Fn.(*ssa.Function), mc, via
		}
	})
	if reg == nil {
		c.Unknown("c10.cte-reentry", c.P.funcKey(f), c.P.Pos(f.Pos()), "anchor lost: the CTE builder registers no closure in a map")
		return
	}
	key := c.P.funcKey(thunk)
	c.Fn(key)
	c.Anchor("CTE thunk", key+" "+c.P.Pos(thunk.Pos()))
	regKey := NewTB().Of(reg.Key).String()
	paths, err := WalkFunc(thunk, WalkCfg{MaxVisits: 1, Bind: bindFreeVarsVia(regMc, regVia)})
	if err != nil {
		c.Unknown("c10.cte-reentry", key, c.P.Pos(thunk.Pos()), err.Error())
		return
	}
	ok, why, n := true, "", 0
	norm := func(s string) string {
		// inside the thunk the captured variables appear as free variables
		s = strings.ReplaceAll(s, "*fv:", "")
		s = strings.ReplaceAll(s, "fv:", "")
		s = strings.ReplaceAll(s, "*alloc:", "")
		s = strings.ReplaceAll(s, "alloc:", "")
		return regNameRe.ReplaceAllString(s, "")
	}
	// a guard value is a closure that fails on every path (it never evaluates anything)
	isGuard := func(t *Term) bool {
		g := t
		for g != nil && (g.Op == "conv" || g.Op == "iface" || g.Op == "changetype") && len(g.Args) == 1 {
			g = g.Args[0]
		}
		if g == nil || g.Op != "closure" {
			return false
		}
		mc, isMC := g.V.(*ssa.MakeClosure)
		if !isMC {
			return false
		}
		gf := mc.Fn.(*ssa.Function)
		gp, err := WalkFunc(gf, WalkCfg{MaxVisits: 1})
		if err != nil || len(gp) == 0 {
			return false
		}
		for _, q := range gp {
			if q.Exit != "return" || len(q.Ret) != 2 || q.Ret[1].Nil {
				return false
			}
			for _, e := range q.Effects {
				if e.Kind == "call" && !strings.HasPrefix(e.Callee, "builtin:") && !strings.HasPrefix(e.Callee, "fmt.") && !strings.HasSuffix(e.Callee, ".Extend") && !strings.HasSuffix(e.Callee, ".String") {
					return false
				}
			}
		}
		return true
	}
	for _, p := range paths {
		guarded := false
		first := true
		for _, e := range p.Effects {
			if e.Kind == "mapupdate" && norm(e.Args[1].String()) == norm(regKey) {
				// the entry holds the guard from the first replacement until the result is stored; any other
				// value (the original thunk put back, say) re-opens the recursion for the calls that follow
				guarded = isGuard(e.Args[2])
			}
			if e.Kind == "call" && !strings.HasPrefix(e.Callee, "builtin:") && !isPureCall(e.Callee) && !strings.Contains(e.Callee, "sqlparser") && !strings.HasSuffix(e.Callee, ".String") && !strings.HasSuffix(e.Callee, ".Extend") && !strings.HasPrefix(e.Callee, "fmt.") {
				n++
				if !guarded {
					if first {
						ok, why = false, "the thunk calls "+e.Callee+" before replacing its own entry by a failing guard: a CTE that refers to itself recurses without bound"
					} else {
						ok, why = false, "the thunk calls "+e.Callee+" after its own entry stopped being the failing guard: a reference to the CTE from inside its body (evaluated by that call) recurses without bound"
					}
				}
				first = false
			}
		}
	}
	if n == 0 {
		ok, why = false, "the thunk evaluates nothing"
	}
	c.Check(ok, "c10.cte-reentry", key, c.P.Pos(thunk.Pos()), "own entry replaced before the body is evaluated on every path", why)
}

// ruleC10MarkerNotCopied: the star projection never copies the "<-" key.
func ruleC10MarkerNotCopied(c *Ctx) {
	c.Doc("c02.no-marker-copy", "in the projection (the function taking *sqlparser.SelectExprs) every store output[k] = v whose key k is the key of a range over the current row is dominated by the false branch of k == \"<-\": the back-reference never enters an output row (no cycle for %v-based fingerprints, no engine-internal key in results)")
	f := c.theFunc("projection", "*sqlparser.SelectExprs", "SelectExpr")
	if f == nil {
		c.Unknown("c02.no-marker-copy", "SelectExpr", "-", "anchor lost: no function takes *sqlparser.SelectExprs")
		return
	}
	row := paramNameOfType(f, "Map")
	n := 0
	allInstrs(f, func(b *ssa.BasicBlock, in ssa.Instruction) {
		mu, ok := in.(*ssa.MapUpdate)
		if !ok {
			return
		}
		ex, ok := mu.Key.(*ssa.Extract)
		if !ok || ex.Index != 1 {
			return
		}
		nx, ok := ex.Tuple.(*ssa.Next)
		if !ok {
			return
		}
		rg, ok := nx.Iter.(*ssa.Range)
		if !ok {
			return
		}
		if p, isParam := rg.X.(*ssa.Parameter); !isParam || p.Name() != row {
			return
		}
		n++
		guard := false
		for _, fc := range relFacts(factsAt(b)) {
			if fc.x == ssa.Value(ex) && fc.r == relNE {
				if s, ok := constString(fc.y); ok && s == "<-" {
					guard = true
				}
			}
		}
		c.Check(guard, "c02.no-marker-copy", c.P.funcKey(f)+"/star-copy", c.P.Pos(mu.Pos()), "the copy of the row's keys is guarded by key != \"<-\"", "the star projection copies every key of the current row, including the \"<-\" back-reference: the output row is cyclic while the marker is set")
	})
	if n == 0 {
		c.Unknown("c02.no-marker-copy", c.P.funcKey(f)+"/star-copy", c.P.Pos(f.Pos()), "anchor lost: no key-by-key copy of the current row in the projection")
	}
}

// ruleC10LockPairing: every Lock is released on every path, and nothing that can panic runs
// between a Lock and a non-deferred Unlock.
func ruleC10LockPairing(c *Ctx) {
	c.Doc("c10.lock-pairing", "for every function that locks a mutex: the unlock is deferred, or every path from Lock reaches exactly one Unlock before returning and no module function is called in between (a panic under a held global mutex would block every later query)")
	n := 0
	for _, f := range c.P.ModFuncs {
		if len(f.Blocks) == 0 {
			continue
		}
		var locks []*ssa.Call
		deferredUnlock := false
		allInstrs(f, func(_ *ssa.BasicBlock, in ssa.Instruction) {
			switch in := in.(type) {
			case *ssa.Call:
				nm := calleeName(in.Common())
				if strings.HasSuffix(nm, "Mutex).Lock") || strings.HasSuffix(nm, "Mutex).RLock") {
					locks = append(locks, in)
				}
			case *ssa.Defer:
				nm := calleeName(in.Common())
				if strings.HasSuffix(nm, "Mutex).Unlock") || strings.HasSuffix(nm, "Mutex).RUnlock") {
					deferredUnlock = true
				}
			}
		})
		if len(locks) == 0 {
			continue
		}
		n++
		key := c.P.funcKey(f)
		c.Fn(key)
		_ = deferredUnlock
		paths, err := WalkFunc(f, WalkCfg{MaxVisits: 2, MaxPaths: 4000})
		if err != nil {
			c.Unknown("c10.lock-pairing", key, c.P.Pos(f.Pos()), err.Error())
			continue
		}
		ok, why := true, ""
		for _, p := range paths {
			held, deferred := 0, 0
			for _, e := range p.Effects {
				switch e.Kind {
				case "defer":
					if strings.HasSuffix(e.Callee, "Mutex).Unlock") || strings.HasSuffix(e.Callee, "Mutex).RUnlock") {
						deferred++
					}
				case "call":
					switch {
					case strings.HasSuffix(e.Callee, "Mutex).Lock") || strings.HasSuffix(e.Callee, "Mutex).RLock"):
						held++
					case strings.HasSuffix(e.Callee, "Mutex).Unlock") || strings.HasSuffix(e.Callee, "Mutex).RUnlock"):
						held--
					default:
						// a call that can panic while the lock is held and no unlock has been deferred yet on this path
						if held > deferred && !strings.HasPrefix(e.Callee, "builtin:") && !isPureCall(e.Callee) {
							if call, isCall := e.Instr.(*ssa.Call); isCall {
								if cal := call.Common().StaticCallee(); cal == nil || c.P.InModule(cal) {
									ok, why = false, "calls "+e.Callee+" while the mutex is held and no unlock is deferred yet: a panic there leaves the mutex locked for ever"
								}
							}
						}
					}
				}
			}
			if (p.Exit == "return" || p.Exit == "panic") && held-deferred != 0 {
				ok, why = false, fmt.Sprintf("a path ending at %s leaves the mutex %s (locks %d, deferred unlocks %d)", c.P.Pos(p.ExitInstr.Pos()), map[bool]string{true: "held", false: "unlocked twice"}[held-deferred > 0], held, deferred)
			}
		}
		c.Check(ok, "c10.lock-pairing", key, c.P.Pos(f.Pos()), "lock/unlock balanced on every path, nothing panicking in between", why)
	}
	if n == 0 {
		c.Unknown("c10.lock-pairing", "module", "-", "no function locks a mutex: anchor lost")
	}
	_ = token.NoPos
}

func init() {
	register("C10", ruleC10FromPlainDocument)
	register("C12", ruleC10FromPlainDocument)
}

// ruleC10FromPlainDocument: the enclosing document never becomes a row as it is.
func ruleC10FromPlainDocument(c *Ctx) {
	c.Doc("c10.from-plain-document", "FROM builder (BuildFromAliasedTable), plain-path arm: when the path resolves to an object (`FROM `<-``, a path without selector) the object becomes a row only through PlainDocument — the enclosing document doubles as the registry of the lazy CTEs, and a CTE whose rows hold that very map makes the document cyclic once the CTE memoises its result: every %v formatter (DISTINCT, CONCAT, LIKE) then overflows the stack, a fatal error no recover stops")
	f := c.P.Func(modPath, "BuildFromAliasedTable")
	pd := c.P.Func(modPath, "PlainDocument")
	if f == nil {
		c.Unknown("c10.from-plain-document", "BuildFromAliasedTable", "-", "anchor lost")
		return
	}
	// the AsArray call of the plain arm: its argument derives from ExecReader(query.data, name) and is not the thunk's result
	n := 0
	var why []string
	// (looking through helpers the FROM builder was split into: their parameters resolve to the builder's own values)
	deepInstrs(f, func(_ *ssa.Function, tb *TB, b *ssa.BasicBlock, in ssa.Instruction) {
		call, ok := in.(*ssa.Call)
		if !ok || call.Common().StaticCallee() == nil || call.Common().StaticCallee().Name() != "AsArray" {
			return
		}
		at := tb.Of(call.Call.Args[0])
		if !strings.Contains(at.String(), "ExecReader(") || strings.Contains(at.String(), "dyn(") && !strings.Contains(at.String(), "phi{") {
			return
		}
		// not the dual arm (AsArray(query.data)) and not the CTE arm (result of the thunk)
		if at.Op == "field" {
			return
		}
		if x := ext0(at); x != nil && x.Op == "call" && x.Name == "dyn" {
			return
		}
		n++
		if pd == nil || !strings.Contains(at.String(), "PlainDocument(") {
			why = append(why, "the object a FROM path resolves to becomes a row as it is at "+c.P.Pos(call.Pos())+": with `FROM `<-`` inside a CTE the registry map ends up inside the rows stored in it (cyclic document, stack overflow in DISTINCT/CONCAT/LIKE)")
		}
	})
	if n == 0 {
		why = append(why, "anchor lost: no AsArray of the resolved path")
	}
	c.Check(len(why) == 0, "c10.from-plain-document", "BuildFromAliasedTable", c.P.Pos(f.Pos()), fmt.Sprintf("%d plain-path sources pass objects through PlainDocument", n), strings.Join(uniq(why), "; "))
}

func init() { register("C10", ruleC10BoundedSend) }

// ruleC10BoundedSend: a goroutine never blocks on a channel whose capacity cannot hold all senders.
func ruleC10BoundedSend(c *Ctx) {
	c.Doc("c10.bounded-send", "no goroutine started in a loop performs a blocking send on a channel made with a constant capacity: the senders are as many as the loop's rounds, the slots are not, and a sender that blocks never reaches its deferred wg.Done — wg.Wait (and with it the query) hangs as soon as more goroutines fail than the channel holds. A send inside a select with a default case, or on a channel sized by a run-time value, is not flagged (not decided)")
	n, sends := 0, 0
	for _, f := range c.P.ModFuncs {
		for _, b := range f.Blocks {
			for _, in := range b.Instrs {
				g, ok := in.(*ssa.Go)
				if !ok {
					continue
				}
				n++
				var target *ssa.Function
				var mc *ssa.MakeClosure
				switch v := g.Call.Value.(type) {
				case *ssa.MakeClosure:
					target, mc = v.Fn.(*ssa.Function), v
				case *ssa.Function:
					target = v
				}
				if target == nil {
					continue
				}
				inLoop := false
				for _, s := range b.Succs {
					if reaches(s, b) {
						inLoop = true
					}
				}
				// the goroutine's body and the function literals it defers or creates
				var bodies []*ssa.Function
				var collect func(h *ssa.Function, d int)
				collect = func(h *ssa.Function, d int) {
					if d > 3 {
						return
					}
					bodies = append(bodies, h)
					for _, a := range h.AnonFuncs {
						collect(a, d+1)
					}
				}
				collect(target, 0)
				for _, h := range bodies {
					allInstrs(h, func(_ *ssa.BasicBlock, hin ssa.Instruction) {
						snd, isSend := hin.(*ssa.Send)
						if !isSend {
							return
						}
						sends++
						mk := chanOrigin(snd.Chan, mc, 0)
						if mk == nil {
							return
						}
						k, isConst := constIntOf(mk.Size)
						c.Check(!(isConst && inLoop), "c10.bounded-send", c.P.funcKey(h)+"/send", c.P.Pos(snd.Pos()), "the channel is not a constant-capacity channel shared by a loop's goroutines",
							fmt.Sprintf("a goroutine started once per round of a loop sends (blocking) on a channel of constant capacity %d made at %s: once the slots are taken the next sender blocks before its deferred Done runs and wg.Wait never returns", k, c.P.Pos(mk.Pos())))
					})
				}
			}
		}
	}
	if sends == 0 {
		c.PassTrivial("c10.bounded-send", "module", "-", fmt.Sprintf("no channel send in any of the %d goroutine bodies", n))
	}
}

// chanOrigin: the make(chan …) a channel value comes from, looking through captured variables of the goroutine's closure.
func chanOrigin(v ssa.Value, mc *ssa.MakeClosure, d int) *ssa.MakeChan {
	if d > 6 || v == nil {
		return nil
	}
	switch x := v.(type) {
	case *ssa.MakeChan:
		return x
	case *ssa.ChangeType:
		return chanOrigin(x.X, mc, d+1)
	case *ssa.UnOp:
		if x.Op != token.MUL {
			return nil
		}
		switch a := x.X.(type) {
		case *ssa.Alloc:
			var mk *ssa.MakeChan
			for _, st := range storesTo(a) {
				if m := chanOrigin(st.Val, mc, d+1); m != nil {
					mk = m
				}
			}
			return mk
		case *ssa.FreeVar:
			return chanOrigin(a, mc, d+1)
		}
	case *ssa.FreeVar:
		// resolve through the enclosing closures up to the creating function
		fn := x.Parent()
		var found *ssa.MakeChan
		if par := fn.Parent(); par != nil {
			allInstrs(par, func(_ *ssa.BasicBlock, in ssa.Instruction) {
				m, ok := in.(*ssa.MakeClosure)
				if !ok || m.Fn != ssa.Value(fn) {
					return
				}
				for i, fv := range fn.FreeVars {
					if fv == x && i < len(m.Bindings) {
						b := m.Bindings[i]
						if a, isA := b.(*ssa.Alloc); isA {
							for _, st := range storesTo(a) {
								if mk := chanOrigin(st.Val, nil, d+1); mk != nil {
									found = mk
								}
							}
						} else if mk := chanOrigin(b, nil, d+1); mk != nil {
							found = mk
						}
					}
				}
			})
		}
		return found
	}
	return nil
}

// addCountsRounds: the go statement g (in block b of f) is the only one of a range loop over a collection xs, it runs in
// every round (its block is the entry of the loop body), and a call wg.Add(len(xs)) dominates the loop from outside it.
func addCountsRounds(f *ssa.Function, b *ssa.BasicBlock, g *ssa.Go) bool {
	type rl struct {
		header *ssa.BasicBlock
		over   ssa.Value
	}
	var loops []rl
	for _, nx := range mapRangeNexts(f) {
		loops = append(loops, rl{nx.Block(), nx.Iter.(*ssa.Range).X})
	}
	for _, lp := range rangeLoops(f) {
		loops = append(loops, rl{lp.header, lp.over})
	}
	for _, lp := range loops {
		if lp.over == nil || !inNaturalLoop(lp.header, b) {
			continue
		}
		// one go statement in the loop, in the block every round enters
		gos, adds := 0, 0
		for _, x := range f.Blocks {
			if !inNaturalLoop(lp.header, x) {
				continue
			}
			for _, in := range x.Instrs {
				if _, isGo := in.(*ssa.Go); isGo {
					gos++
				}
				if call, ok := in.(*ssa.Call); ok && strings.HasSuffix(calleeName(call.Common()), "(*sync.WaitGroup).Add") {
					adds++
				}
			}
		}
		if gos != 1 || adds != 0 || len(b.Preds) != 1 || b.Preds[0] != lp.header {
			continue
		}
		for _, x := range f.Blocks {
			if x == lp.header || inNaturalLoop(lp.header, x) || !x.Dominates(lp.header) {
				continue
			}
			for _, in := range x.Instrs {
				call, ok := in.(*ssa.Call)
				if !ok || !strings.HasSuffix(calleeName(call.Common()), "(*sync.WaitGroup).Add") || len(call.Call.Args) != 2 {
					continue
				}
				if isLenOf(call.Call.Args[1], lp.over) || NewTB().Of(call.Call.Args[1]).String() == "builtin:len("+NewTB().Of(lp.over).String()+")" {
					return true
				}
			}
		}
	}
	return false
}
