package main

import (
	"go/constant"
	"go/token"
	"go/types"

	"golang.org/x/tools/go/ssa"
)

// Engine E-idx / E-guard: dominance facts with edge refinement, and a small prover for
// `v <= len(y)`, `v < len(y)` and `v >= 0` from those facts. Facts are the conditions of the
// If instructions that dominate a block together with the branch taken to reach it.

type fact struct {
	cond  ssa.Value
	truth bool
}

// factsAt returns the branch facts that hold on entry to block b.
func factsAt(b *ssa.BasicBlock) []fact {
	var out []fact
	for cur := b; cur != nil; {
		d := cur.Idom()
		if d == nil {
			break
		}
		if n := len(d.Instrs); n > 0 {
			if iff, ok := d.Instrs[n-1].(*ssa.If); ok {
				s0, s1 := d.Succs[0], d.Succs[1]
				in0 := s0 != s1 && len(s0.Preds) == 1 && s0.Dominates(b)
				in1 := s0 != s1 && len(s1.Preds) == 1 && s1.Dominates(b)
				if in0 && !in1 {
					out = append(out, fact{iff.Cond, true})
				} else if in1 && !in0 {
					out = append(out, fact{iff.Cond, false})
				}
			}
		}
		cur = d
	}
	return out
}

// factsOnEdge: facts holding when control flows from pred into its successor succ.
func factsOnEdge(pred, succ *ssa.BasicBlock) []fact {
	out := factsAt(pred)
	if n := len(pred.Instrs); n > 0 {
		if iff, ok := pred.Instrs[n-1].(*ssa.If); ok && pred.Succs[0] != pred.Succs[1] {
			if pred.Succs[0] == succ {
				out = append(out, fact{iff.Cond, true})
			} else if pred.Succs[1] == succ {
				out = append(out, fact{iff.Cond, false})
			}
		}
	}
	return out
}

func isLenOf(v ssa.Value, y ssa.Value) bool {
	call, ok := v.(*ssa.Call)
	if !ok {
		return false
	}
	b, ok := call.Call.Value.(*ssa.Builtin)
	if !ok || b.Name() != "len" || len(call.Call.Args) != 1 {
		return false
	}
	return sameValue(call.Call.Args[0], y)
}

// sameValue: SSA identity, looking through loads of the same never-reassigned-in-between cell
// is NOT attempted (unsound); only identity and identical pure re-computations (len/field loads
// of the same register) are accepted.
func sameValue(a, b ssa.Value) bool {
	if a == b {
		return true
	}
	// a parameter that a function literal captures lives in a cell that is written once, at entry (go/ssa spills it):
	// every load of the cell is the parameter
	if ra, rb := spilledParam(a), spilledParam(b); ra != a || rb != b {
		if ra == rb {
			return true
		}
	}
	ua, ok1 := a.(*ssa.UnOp)
	ub, ok2 := b.(*ssa.UnOp)
	if ok1 && ok2 && ua.Op == token.MUL && ub.Op == token.MUL && ua.X == ub.X {
		// two loads of the same address: equal only if no store can intervene; accept for
		// pointer parameters / results that the function never stores through
		if !storedThrough(ua.X) {
			return true
		}
	}
	return false
}

func storedThrough(addr ssa.Value) bool {
	refs := addr.Referrers()
	if refs == nil {
		return true // unknown
	}
	for _, r := range *refs {
		switch r := r.(type) {
		case *ssa.Store:
			if r.Addr == addr {
				return true
			}
		case *ssa.UnOp, *ssa.DebugRef:
		default:
			_ = r
			return true // escapes: passed to a call etc.
		}
	}
	return false
}

type rel int

const (
	relNone rel = iota
	relLT
	relLE
	relGT
	relGE
	relEQ
	relNE
)

func relOf(op token.Token) rel {
	switch op {
	case token.LSS:
		return relLT
	case token.LEQ:
		return relLE
	case token.GTR:
		return relGT
	case token.GEQ:
		return relGE
	case token.EQL:
		return relEQ
	case token.NEQ:
		return relNE
	}
	return relNone
}

func negRel(r rel) rel {
	switch r {
	case relLT:
		return relGE
	case relLE:
		return relGT
	case relGT:
		return relLE
	case relGE:
		return relLT
	case relEQ:
		return relNE
	case relNE:
		return relEQ
	}
	return relNone
}

func flipRel(r rel) rel {
	switch r {
	case relLT:
		return relGT
	case relLE:
		return relGE
	case relGT:
		return relLT
	case relGE:
		return relLE
	}
	return r
}

// relFacts normalises facts to (x rel y) triples that are known to hold.
type relFact struct {
	x, y ssa.Value
	r    rel
}

func relFacts(fs []fact) []relFact {
	var out []relFact
	var add func(v ssa.Value, truth bool)
	add = func(v ssa.Value, truth bool) {
		switch c := v.(type) {
		case *ssa.UnOp:
			if c.Op == token.NOT {
				add(c.X, !truth)
			}
		case *ssa.BinOp:
			r := relOf(c.Op)
			if r == relNone {
				return
			}
			if !truth {
				r = negRel(r)
			}
			out = append(out, relFact{c.X, c.Y, r}, relFact{c.Y, c.X, flipRel(r)})
		}
	}
	for _, f := range fs {
		add(f.cond, f.truth)
	}
	return out
}

func constIntOf(v ssa.Value) (int64, bool) {
	c, ok := v.(*ssa.Const)
	if !ok || c.Value == nil || c.Value.Kind() != constant.Int {
		return 0, false
	}
	return constant.Int64Val(c.Value)
}

// minMaxArgs: v is a call of the builtin min or max; its arguments.
func minMaxArgs(v ssa.Value) (string, []ssa.Value) {
	call, ok := v.(*ssa.Call)
	if !ok {
		return "", nil
	}
	b, ok := call.Call.Value.(*ssa.Builtin)
	if !ok || (b.Name() != "min" && b.Name() != "max") {
		return "", nil
	}
	return b.Name(), call.Call.Args
}

// proveLELen: v <= len(y) holds whenever control is at block `at` (facts fs).
func proveLELen(v, y ssa.Value, fs []fact, depth int) bool {
	if depth > 6 {
		return false
	}
	if isLenOf(v, y) {
		return true
	}
	if k, ok := constIntOf(v); ok && k == 0 {
		return true
	}
	// min(a, b, …) <= each of its arguments; max(a, b, …) <= n iff every argument is
	if nm, args := minMaxArgs(v); nm != "" {
		all, any := true, false
		for _, a := range args {
			if proveLELen(a, y, fs, depth+1) {
				any = true
			} else {
				all = false
			}
		}
		return nm == "min" && any || nm == "max" && all
	}
	for _, f := range relFacts(fs) {
		if f.x == v && isLenOf(f.y, y) && (f.r == relLT || f.r == relLE || f.r == relEQ) {
			return true
		}
		// transitivity: v <= w and w <= len(y)
		if f.x == v && (f.r == relLT || f.r == relLE || f.r == relEQ) && f.y != v {
			if _, isConst := f.y.(*ssa.Const); !isConst && depth < 3 && proveLELen(f.y, y, fs, depth+2) {
				return true
			}
		}
	}
	if ph, ok := v.(*ssa.Phi); ok {
		for i, e := range ph.Edges {
			pred := ph.Block().Preds[i]
			if !proveLELen(e, y, factsOnEdge(pred, ph.Block()), depth+1) {
				return false
			}
		}
		return true
	}
	return false
}

// proveLTLen: v < len(y).
func proveLTLen(v, y ssa.Value, fs []fact, depth int) bool {
	if depth > 6 {
		return false
	}
	rf := relFacts(fs)
	for _, f := range rf {
		if f.x == v && isLenOf(f.y, y) && f.r == relLT {
			return true
		}
	}
	if k, ok := constIntOf(v); ok {
		if n, known := knownLen(y); known && k < n {
			return true
		}
	}
	// constant index k: len(y) > k, len(y) >= k+1, len(y) == n (n>k), len(y) != 0 (k==0)
	if k, ok := constIntOf(v); ok {
		for _, f := range rf {
			if !isLenOf(f.x, y) {
				continue
			}
			if n, ok := constIntOf(f.y); ok {
				switch f.r {
				case relGT:
					if n >= k {
						return true
					}
				case relGE, relEQ:
					if n > k {
						return true
					}
				case relNE:
					if n == 0 && k == 0 {
						return true
					}
				}
			}
		}
	}
	// v = len(y) - 1 under len(y) > 0 (or != 0, >= 1)
	if b, ok := v.(*ssa.BinOp); ok && b.Op == token.SUB && isLenOf(b.X, y) {
		if k, ok := constIntOf(b.Y); ok && k >= 1 {
			return true // len-1 < len always (non-negativity is proveGE0's business)
		}
	}
	if ph, ok := v.(*ssa.Phi); ok {
		for i, e := range ph.Edges {
			pred := ph.Block().Preds[i]
			if !proveLTLen(e, y, factsOnEdge(pred, ph.Block()), depth+1) {
				return false
			}
		}
		return true
	}
	return false
}

// proveGE0: v >= 0.
// ge0Assumed: loop-carried values currently assumed non-negative while their own incoming edges are being proven
// (induction over the rounds of the loop: the first value does not depend on the phi, every later one is computed
// from a value of an earlier round).
var ge0Assumed = map[ssa.Value]bool{}

func proveGE0(v ssa.Value, fs []fact, depth int) bool {
	if depth > 6 {
		return false
	}
	if ge0Assumed[v] {
		return true
	}
	if k, ok := constIntOf(v); ok {
		return k >= 0
	}
	if call, ok := v.(*ssa.Call); ok {
		if b, ok := call.Call.Value.(*ssa.Builtin); ok && (b.Name() == "len" || b.Name() == "cap") {
			return true
		}
	}
	if nm, args := minMaxArgs(v); nm != "" {
		all, any := true, false
		for _, a := range args {
			if proveGE0(a, fs, depth+1) {
				any = true
			} else {
				all = false
			}
		}
		return nm == "min" && all || nm == "max" && any
	}
	rf := relFacts(fs)
	for _, f := range rf {
		if f.x != v {
			continue
		}
		if n, ok := constIntOf(f.y); ok {
			switch f.r {
			case relGE, relEQ:
				if n >= 0 {
					return true
				}
			case relGT:
				if n >= -1 {
					return true
				}
			}
		}
		// v >= w / v > w / v == w with w >= 0
		if f.r == relGE || f.r == relGT || f.r == relEQ {
			if _, isConst := f.y.(*ssa.Const); !isConst && f.y != v && depth < 3 && proveGE0(f.y, nil, depth+3) {
				return true
			}
		}
	}
	if b, ok := v.(*ssa.BinOp); ok {
		switch b.Op {
		case token.ADD:
			return proveGE0(b.X, fs, depth+1) && proveGE0(b.Y, fs, depth+1)
		case token.SUB:
			// len(y) - k under len(y) > k-1 …: x - k >= 0 iff x >= k
			if k, ok := constIntOf(b.Y); ok {
				for _, f := range rf {
					if f.x == b.X {
						if n, ok := constIntOf(f.y); ok {
							if (f.r == relGT && n >= k-1) || ((f.r == relGE || f.r == relEQ) && n >= k) || (f.r == relNE && n == 0 && k == 1 && proveGE0(b.X, nil, depth+1)) {
								return true
							}
						}
					}
				}
			}
		}
	}
	if ph, ok := v.(*ssa.Phi); ok {
		ge0Assumed[v] = true
		defer delete(ge0Assumed, v)
		for i, e := range ph.Edges {
			pred := ph.Block().Preds[i]
			if e == v {
				continue
			}
			// loop counters: i = phi(0, i+1)
			if bo, ok := e.(*ssa.BinOp); ok && bo.Op == token.ADD && bo.X == v {
				if k, ok := constIntOf(bo.Y); ok && k >= 0 {
					continue
				}
			}
			if !proveGE0(e, factsOnEdge(pred, ph.Block()), depth+1) {
				return false
			}
		}
		return true
	}
	if cv, ok := v.(*ssa.Convert); ok {
		if bt, ok := cv.X.Type().Underlying().(interface{ Info() int }); ok {
			_ = bt
		}
	}
	return false
}

// knownLen: the length of y is a compile-time constant: a full slice of an array, or the result
// of a module function whose every return is such a slice.
func knownLen(y ssa.Value) (int64, bool) {
	arrLen := func(v ssa.Value) (int64, bool) {
		sl, ok := v.(*ssa.Slice)
		if !ok || sl.Low != nil || sl.High != nil {
			return 0, false
		}
		if p, isP := sl.X.Type().Underlying().(*types.Pointer); isP {
			if a, isA := p.Elem().Underlying().(*types.Array); isA {
				return a.Len(), true
			}
		}
		return 0, false
	}
	if n, ok := arrLen(y); ok {
		return n, true
	}
	call, ok := y.(*ssa.Call)
	if !ok || call.Common().StaticCallee() == nil || len(call.Common().StaticCallee().Blocks) == 0 {
		return 0, false
	}
	var n int64 = -1
	good := true
	allInstrs(call.Common().StaticCallee(), func(_ *ssa.BasicBlock, in ssa.Instruction) {
		if r, isR := in.(*ssa.Return); isR && len(r.Results) == 1 {
			k, ok := arrLen(r.Results[0])
			if !ok || (n >= 0 && n != k) {
				good = false
			}
			n = k
		}
	})
	return n, good && n >= 0
}

// spilledParam: v is a load of a cell whose only store, anywhere (the function literals that capture it included), is the
// spill of a parameter at the function's entry: the parameter; otherwise v itself.
func spilledParam(v ssa.Value) ssa.Value {
	u, ok := v.(*ssa.UnOp)
	if !ok || u.Op != token.MUL {
		return v
	}
	a, ok := u.X.(*ssa.Alloc)
	if !ok {
		return v
	}
	st := storesTo(a)
	if len(st) != 1 {
		return v
	}
	p, ok := st[0].Val.(*ssa.Parameter)
	if !ok || st[0].Parent() != a.Parent() || st[0].Block() != a.Parent().Blocks[0] {
		return v
	}
	// the address itself must not travel (only loads, the store, captures and debug references)
	if refs := a.Referrers(); refs != nil {
		for _, r := range *refs {
			switch r.(type) {
			case *ssa.UnOp, *ssa.Store, *ssa.MakeClosure, *ssa.DebugRef:
			default:
				return v
			}
		}
	}
	return p
}
