package main

import (
	"fmt"
	"go/constant"
	"go/token"
	"go/types"
	"strconv"
	"strings"

	"golang.org/x/tools/go/ssa"
)

func init() {
	register("C07", ruleC07ScopeArg, ruleC07ExistsMerge, ruleC07OwnState, ruleC07CteMemo, ruleC07FromArms, ruleC07Alias,
		// shared structural conditions of the composed path
		ruleC09ThunkArms, ruleC14NestedWaits, ruleC20OptionsShared, ruleC10CteReentry)
	register("C17", ruleC17QuoteStates, ruleC17TerminationByte, ruleC17BracketGuard, ruleC17LengthAccounting, ruleC17OptionOrder)
}

func ruleC07ScopeArg(c *Ctx) {
	c.Doc("c07.scope-arg", "row-scoped subqueries: the functions evaluating *sqlparser.Subquery and *sqlparser.ExistsExpr prepare the nested statement over the current row made navigable (BackwardNavigation(query, current): the row plus `<-` -> the enclosing document) with the enclosing query's options; the subquery's result flows unchanged to the return value; EXISTS returns exactly len(rows) > 0 of the nested result; the nested error is returned")
	c.NotDecidedClause("C07: equality of the composed query with the staged evaluation (a relation between two executions, no structural footprint); only the structural conditions the composed path needs are decided")
	type site struct{ role, typ, name, field string }
	for _, s := range []site{{"scalar subquery", "*sqlparser.Subquery", "SubqueryExpr", "Select"}, {"EXISTS", "*sqlparser.ExistsExpr", "ExistExpr", "Subquery"}} {
		f := c.theFunc(s.role, s.typ, s.name)
		if f == nil {
			c.Unknown("c07.scope-arg", s.name, "-", "anchor lost: no function takes "+s.typ)
			continue
		}
		key := c.P.funcKey(f)
		ep := paramNameOfType(f, s.typ)
		row := paramNameOfType(f, "Map")
		paths, err := WalkFunc(f, WalkCfg{MaxVisits: 2, MaxPaths: 6000})
		if err != nil {
			c.Unknown("c07.scope-arg", key, c.P.Pos(f.Pos()), err.Error())
			continue
		}
		var why []string
		n := 0
		for _, p := range paths {
			if p.Exit != "return" || len(p.Ret) != 2 {
				continue
			}
			// a success path: the error result is nil, or both results are handed on from one call (`return q.run()`:
			// the value is that call's value whenever it succeeds)
			forwards := false
			if x0, x1 := p.Ret[0].T, p.Ret[1].T; x0 != nil && x1 != nil && x0.Op == "ext" && x1.Op == "ext" && x0.Name == "0" && x1.Name == "1" && x0.Args[0].V != nil && x0.Args[0].V == x1.Args[0].V {
				forwards = true
			}
			if !p.Ret[1].Nil && !forwards {
				continue
			}
			n++
			var prep, ex *Effect
			for i := range p.Effects {
				e := &p.Effects[i]
				if e.Kind != "call" {
					continue
				}
				if e.Callee == "Prepare" {
					prep = e
				}
				if strings.HasSuffix(e.Callee, ".exec") || strings.HasSuffix(e.Callee, ".execAndPostProcess") {
					ex = e
				}
			}
			if prep == nil || ex == nil {
				why = append(why, "a success path does not prepare and execute the nested statement")
				continue
			}
			a := prep.Args
			scoped := a[0].Op == "call" && a[0].Name == "BackwardNavigation" && len(a[0].Args) == 2 && a[0].Args[1].Op == "param" && a[0].Args[1].Name == row || a[0].Op == "param" && a[0].Name == row
			if !scoped {
				why = append(why, "the nested statement is prepared over "+a[0].String()+", not over the current row")
			}
			if !fieldsRead(a[1], ep)[s.field] {
				why = append(why, "the nested statement is "+a[1].String()+", not the expression's own subquery")
			}
			if !(a[2].Op == "field" && a[2].Name == "options") {
				why = append(why, "the nested statement is not prepared with the enclosing query's options")
			}
			// executed query is the prepared one
			if !strings.Contains(ex.Args[0].String(), "Prepare(") {
				why = append(why, "the executed query is not the prepared nested query")
			}
			r := p.Ret[0].T
			if s.name == "SubqueryExpr" || s.typ == "*sqlparser.Subquery" {
				x := ext0(r)
				if x == nil || x.V != ex.Instr.(ssa.Value) {
					why = append(why, "the subquery's value is "+termStr(r)+", not the nested result itself")
				}
			} else {
				// len(rows) > 0
				okLen := r != nil && r.Op == "bin" && (r.Name == ">" && r.Args[1].Name == "0" || r.Name == "!=" && r.Args[1].Name == "0" || r.Name == ">=" && r.Args[1].Name == "1") && r.Args[0].Op == "call" && r.Args[0].Name == "builtin:len" && strings.Contains(r.Args[0].String(), ".exec")
				if !okLen {
					why = append(why, "EXISTS returns "+termStr(r)+", not len(nested rows) > 0")
				}
			}
		}
		if n == 0 {
			why = append(why, "no success path")
		}
		c.Check(len(why) == 0, "c07.scope-arg", key, c.P.Pos(f.Pos()), fmt.Sprintf("%d success paths: Prepare(navigable current row, own subquery, enclosing options), executed, result returned", n), strings.Join(uniq(why), "; "))
	}
}

// ruleC07ExistsMerge: EXISTS makes every entry of the (navigable) outer row visible to the nested rows.
func ruleC07ExistsMerge(c *Ctx) {
	c.Doc("c07.exists-merge", "EXISTS: the loop that merges the outer row into the copies of the nested rows copies every entry of the outer row — no condition on the key guards the store (in particular the `<-` entry, through which the predicate reaches the enclosing document, is carried over) — and the nested element's own entries are written after the outer row's (inner scope hides outer scope)")
	f := c.theFunc("EXISTS", "*sqlparser.ExistsExpr", "ExistExpr")
	if f == nil {
		c.Unknown("c07.exists-merge", "ExistExpr", "-", "anchor lost")
		return
	}
	n, bad := 0, ""
	rowParam := paramNameOfType(f, "Map") // the outer row, whatever the parameter is called
	var outerCopy, elemCopy *mapCopy      // the two key-by-key copies into the merged row
	copies := mapCopies(f)
	copyTB := make([]*TB, len(copies))
	for i := range copies {
		copyTB[i] = NewTB()
	}
	// the merge may live in a helper (`from[i] = overlayRow(current, item)`): its copies, seen with the helper's
	// parameters standing for the caller's arguments
	allInstrs(f, func(_ *ssa.BasicBlock, in ssa.Instruction) {
		call, ok := in.(*ssa.Call)
		if !ok || !isUnknownHelper(call.Common().StaticCallee()) {
			return
		}
		h := call.Common().StaticCallee()
		htb := NewTB()
		htb.bind = map[*ssa.Parameter]*Term{}
		for i, p := range h.Params {
			if i < len(call.Call.Args) {
				htb.bind[p] = NewTB().Of(call.Call.Args[i])
			}
		}
		for _, hc := range mapCopies(h) {
			copies = append(copies, hc)
			copyTB = append(copyTB, htb)
		}
	})
	dstOf := map[*mapCopy]string{}
	for i := range copies {
		mc := &copies[i]
		srcT := copyTB[i].Of(mc.Src)
		dstOf[mc] = copyTB[i].Of(mc.Dst).String()
		src := srcT.String()
		isOuter := srcT.Op == "param" || srcT.Op == "phi" && rowParam != "" && strings.Contains(src, "p:"+rowParam) || srcT.Op == "call" && strings.Contains(srcT.Name, "BackwardNavigation")
		if !isOuter {
			if strings.Contains(src, "assert") || strings.Contains(src, ".from") {
				elemCopy = mc
			}
			continue
		}
		outerCopy = mc
		n++
		if mc.Cond {
			bad = "the copy of the outer row's entries is filtered by a condition at " + c.P.Pos(mc.Pos) + ": an entry of the outer row (e.g. `<-`) is not visible inside the EXISTS predicate"
		}
	}
	// scoping: the element's own entries are written after the outer row's, so that a column of the element hides the
	// outer row's column of the same name (the subquery run standalone on the element sees the element's value)
	if bad == "" && n > 0 {
		switch {
		case elemCopy == nil || outerCopy == nil:
			bad = "the two key-by-key copies (outer row, nested element) into the merged row were not found"
		case !outerCopy.before(*elemCopy):
			bad = "the outer row's entries are written after the nested element's: on a name collision the outer column overrides the element's own column inside the EXISTS predicate"
		case elemCopy.Cond:
			bad = "the copy of the nested element's entries is filtered by a condition at " + c.P.Pos(elemCopy.Pos) + ": an entry that is skipped (a NULL column, say) lets the outer row's column of the same name show through inside the EXISTS predicate"
		case dstOf[outerCopy] != dstOf[elemCopy]:
			bad = "the outer row and the nested element are not merged into the same row"
		}
	}
	c.Check(n > 0 && bad == "", "c07.exists-merge", c.P.funcKey(f), c.P.Pos(f.Pos()), "every entry of the outer row is copied, unconditionally", func() string {
		if bad != "" {
			return bad
		}
		return "no loop copies the outer row's entries into the nested rows"
	}())
}

// ruleC07OwnState: a query's memo, wait group and post-processor list are its own.
func ruleC07OwnState(c *Ctx) {
	c.Doc("c07.own-state", "per-query evaluation state is never shared between two queries: every store to Query.singletonExecutions is a freshly made map (a subquery re-prepared per outer row must not see the aggregates or ONCE results memoised for another row), and Query.postProcessors is only set from a fresh slice or grown by append")
	n := 0
	for _, f := range c.P.pkgFuncs(modPath) {
		allInstrs(f, func(_ *ssa.BasicBlock, in ssa.Instruction) {
			st, ok := in.(*ssa.Store)
			if !ok {
				return
			}
			fa, ok := st.Addr.(*ssa.FieldAddr)
			if !ok || !isNamedType(fa.X.Type(), modPath, "Query") {
				return
			}
			switch fieldName(fa.X.Type(), fa.Field) {
			case "singletonExecutions":
				n++
				_, fresh := st.Val.(*ssa.MakeMap)
				c.Check(fresh, "c07.own-state", c.P.funcKey(f)+"/singletonExecutions", c.P.Pos(st.Pos()), "a freshly made map", "a query's memo is set to "+NewTB().Of(st.Val).String()+": results memoised by another query (another outer row) are reused")
			case "postProcessors":
				n++
				t := NewTB().Of(st.Val)
				ok := t.Op == "make" || t.Op == "slice" || t.Op == "call" && t.Name == "builtin:append" && strings.Contains(t.Args[0].String(), ".postProcessors")
				c.Check(ok, "c07.own-state", c.P.funcKey(f)+"/postProcessors", c.P.Pos(st.Pos()), "fresh or grown by append", "a query's post-processor list is set to "+t.String())
			}
		})
	}
	if n < 3 {
		c.Unknown("c07.own-state", "Query-state", "-", fmt.Sprintf("only %d stores to per-query state found", n))
	}
}

func ruleC07CteMemo(c *Ctx) {
	c.Doc("c07.cte-memo", "the lazy CTE thunk prepares the CTE's own subquery over the registry map with the enclosing options, runs it to completion (execAndPostProcess), stores, under the very key it was registered under, a thunk that returns exactly those rows (a second reference reads the materialised rows; the entry stays a CTE entry, never a plain value) and returns them; errors are returned without materialising")
	f := c.theFunc("CTE builder", "*sqlparser.With", "BuildCte")
	if f == nil {
		c.Unknown("c07.cte-memo", "BuildCte", "-", "anchor lost")
		return
	}
	var reg *ssa.MapUpdate
	var thunk *ssa.Function
	var regMc *ssa.MakeClosure
	var regVia *ssa.Call
	allInstrs(f, func(_ *ssa.BasicBlock, in ssa.Instruction) {
		mu, ok := in.(*ssa.MapUpdate)
		if !ok {
			return
		}
		if mc, via := closureVia(mu.Value); mc != nil {
			reg, thunk, regMc, regVia = mu, mc.Fn.(*ssa.Function), mc, via
		}
	})
	if reg == nil {
		c.Unknown("c07.cte-memo", c.P.funcKey(f), c.P.Pos(f.Pos()), "anchor lost: no thunk registration")
		return
	}
	key := c.P.funcKey(thunk)
	c.Fn(key)
	norm := func(s string) string {
		for _, p := range []string{"*fv:", "fv:", "*alloc:", "alloc:"} {
			s = strings.ReplaceAll(s, p, "")
		}
		return regNameRe.ReplaceAllString(s, "")
	}
	regKey := norm(NewTB().Of(reg.Key).String())
	regMap := norm(NewTB().Of(reg.Map).String())
	paths, err := WalkFunc(thunk, WalkCfg{MaxVisits: 1, Bind: bindFreeVarsVia(regMc, regVia)})
	if err != nil {
		c.Unknown("c07.cte-memo", key, c.P.Pos(thunk.Pos()), err.Error())
		return
	}
	var why []string
	n := 0
	nStuck := 0
	for _, p := range paths {
		if p.Exit != "return" || len(p.Ret) != 2 {
			continue
		}
		var prep, run *Effect
		var lastStore *Effect
		otherMap := ""
		for i := range p.Effects {
			e := &p.Effects[i]
			if e.Kind == "call" && e.Callee == "Prepare" {
				prep = e
			}
			if e.Kind == "call" && strings.HasSuffix(e.Callee, ".execAndPostProcess") {
				run = e
			}
			if e.Kind == "mapupdate" && norm(e.Args[1].String()) == regKey {
				lastStore = e
				if m := norm(fieldOfLocalRecord(e.Args[0]).String()); m != regMap && p.Ret[1].Nil {
					otherMap = m
				}
			}
		}
		if !p.Ret[1].Nil {
			// error path: the rows must not have been materialised
			if lastStore != nil && run != nil && strings.Contains(lastStore.Args[2].String(), "execAndPostProcess") {
				why = append(why, "a failing CTE still materialises a result")
			}
			// ... and the entry is the unevaluated thunk again, not the cycle guard: the failure was reported, the query
			// stays usable, the next execution evaluates the CTE again
			if lastStore != nil {
				restored := false
				if v, ok := lastStore.Vals[2].T.V.(ssa.Value); ok && lastStore.Vals[2].T != nil {
					if mc, _ := closureVia(v); mc != nil && sameThunk(mc.Fn, thunk) {
						restored = true
					}
				}
				if mu, ok := lastStore.Instr.(*ssa.MapUpdate); ok && !restored {
					if mc, _ := closureVia(mu.Value); mc != nil && sameThunk(mc.Fn, thunk) {
						restored = true
					}
				}
				if !restored {
					nStuck++
				}
			}
			continue
		}
		n++
		if prep == nil || run == nil {
			why = append(why, "the thunk does not prepare and run the CTE's subquery to completion")
			continue
		}
		if !strings.Contains(prep.Args[1].String(), "Subquery") {
			why = append(why, "the thunk prepares "+prep.Args[1].String()+", not the CTE's subquery")
		}
		if !(prep.Args[2].Op == "field" && prep.Args[2].Name == "options") {
			why = append(why, "the CTE is not prepared with the enclosing options")
		}
		rows := ext0(p.Ret[0].T)
		if rows == nil || rows.V != run.Instr.(ssa.Value) {
			why = append(why, "the thunk returns "+avString(p.Ret[0])+", not the rows of its subquery")
		}
		if otherMap != "" {
			why = append(why, "a store under the CTE's key goes into "+otherMap+", not into the registry the CTE was registered in ("+regMap+"): when the two differ (the CTE's body has a WITH of its own and works on a private copy) the registry keeps the cycle guard and every later reference fails or re-evaluates")
		}
		if lastStore == nil {
			why = append(why, "the rows are not stored under the CTE's own key: a second reference re-evaluates or reads something else")
		} else if x := ext0(lastStore.Args[2]); x != nil && x.V == run.Instr.(ssa.Value) {
			why = append(why, "the evaluated rows are stored as a plain value: the registry is also the `dual` row and the enclosing document, where a plain entry is taken for a column (the result of `SELECT * FROM dual` then depends on whether the CTE was evaluated before)")
		} else if !isMemoThunk(lastStore.Args[2], run.Instr.(ssa.Value)) {
			why = append(why, "the value stored under the CTE's own key is neither the rows nor a thunk returning them: a second reference re-evaluates or reads something else")
		}
	}
	if n == 0 {
		why = append(why, "no success path")
	}
	c.Check(nStuck == 0, "c07.cte-memo", key+"/failure-restores", c.P.Pos(thunk.Pos()), "a failed evaluation puts the unevaluated entry back", fmt.Sprintf("%d failure paths of the thunk return with the cycle guard still under the CTE's key: after one failed evaluation every later Exec of the same Query reports `recursive reference to the common table expression` although nothing is recursive and the fault is gone", nStuck))
	// nothing deferred by the thunk writes the registry: a deferred store runs after the memo was stored and takes it
	// away again (every later reference re-evaluates the CTE)
	allInstrs(thunk, func(_ *ssa.BasicBlock, in ssa.Instruction) {
		df, ok := in.(*ssa.Defer)
		if !ok {
			return
		}
		var g *ssa.Function
		if mc, ok := stripBox(df.Call.Value).(*ssa.MakeClosure); ok {
			g = mc.Fn.(*ssa.Function)
		} else if sc := df.Call.StaticCallee(); sc != nil && sc.Pkg == thunk.Pkg {
			g = sc
		}
		if g == nil {
			return
		}
		deepInstrs(g, func(_ *ssa.Function, _ *TB, _ *ssa.BasicBlock, in2 ssa.Instruction) {
			if mu, ok := in2.(*ssa.MapUpdate); ok && shortType(mu.Map.Type()) == shortType(reg.Map.Type()) {
				why = append(why, "a function deferred by the thunk stores into the registry at "+c.P.Pos(mu.Pos())+": it runs after the rows were memoised and replaces the memo — the next reference evaluates the CTE again")
			}
		})
	})
	c.Check(len(why) == 0, "c07.cte-memo", key, c.P.Pos(thunk.Pos()), "subquery prepared with the enclosing options, run to completion, stored under its own key, returned", strings.Join(uniq(why), "; "))
}

func ruleC07FromArms(c *Ctx) {
	c.Doc("c07.from-arms", "FROM builder (the function taking sqlparser.SimpleTableExpr): a table name that resolves to a lazy CTE thunk is evaluated by calling the thunk (error returned) and its rows become the source through AsArray and the alias wrapper; a derived table is prepared over the query's data with its options, executed, and its rows become the source through the same AsArray + alias wrapper; a plain value goes through the same two steps")
	var f *ssa.Function
	for _, g := range c.P.pkgFuncs(modPath) {
		if g.Parent() != nil {
			continue
		}
		for _, pa := range g.Params {
			if shortType(pa.Type()) == "sqlparser.SimpleTableExpr" {
				f = g
			}
		}
	}
	if f == nil {
		c.Unknown("c07.from-arms", "BuildFromAliasedTable", "-", "anchor lost")
		return
	}
	key := c.P.funcKey(f)
	c.Fn(key)
	as := ""
	for _, pa := range f.Params {
		if pa.Type().String() == "string" {
			as = pa.Name()
		}
	}
	paths, err := WalkFunc(f, WalkCfg{MaxVisits: 1, MaxPaths: 8000})
	if err != nil {
		c.Unknown("c07.from-arms", key, c.P.Pos(f.Pos()), err.Error())
		return
	}
	seen := map[string]bool{}
	var why []string
	for _, p := range paths {
		if p.Exit != "return" || len(p.Ret) != 1 || !p.Ret[0].Nil {
			continue
		}
		var fromVal *Term
		arm := ""
		for _, e := range p.Effects {
			if e.Kind == "store" && e.Args[0].Op == "field" && e.Args[0].Name == "from" {
				fromVal = e.Args[1]
			}
			if e.Kind == "call" && e.Callee == "dyn" && len(e.Args) == 1 {
				arm = "cte"
			}
			if e.Kind == "call" && e.Callee == "Prepare" {
				arm = "derived"
			}
		}
		if fromVal == nil {
			continue
		}
		if arm == "" {
			if strings.Contains(fromVal.String(), "ExecReader(") {
				arm = "plain"
			} else {
				arm = "dual"
			}
		}
		seen[arm] = true
		if arm == "dual" {
			continue
		}
		// from = ProcessAlias(AsArray(X)#0, as)
		a, isAlias := callArgs(fromVal, "ProcessAlias")
		if !isAlias || len(a) != 2 || !(a[1].Op == "param" && a[1].Name == as) {
			why = append(why, arm+": the source rows are "+fromVal.String()+", not ProcessAlias(rows, alias)")
			continue
		}
		arr := ext0(a[0])
		aa, isArr := callArgs(arr, "AsArray")
		if arr == nil || !isArr {
			why = append(why, arm+": the rows do not go through AsArray")
			continue
		}
		src := aa[0].String()
		switch arm {
		case "cte":
			if !strings.HasPrefix(src, "dyn(") {
				why = append(why, "cte: the source is "+src+", not the thunk's result")
			}
		case "derived":
			if !strings.Contains(src, ".exec") || !strings.Contains(src, "Prepare(") {
				why = append(why, "derived: the source is "+src+", not the nested query's result")
			}
		case "plain":
			if !strings.Contains(src, "ExecReader(") {
				why = append(why, "plain: the source is "+src)
			}
		}
	}
	for _, arm := range []string{"cte", "derived", "plain"} {
		if !seen[arm] {
			why = append(why, "no success path for the "+arm+" arm")
		}
	}
	c.Check(len(why) == 0, "c07.from-arms", key, c.P.Pos(f.Pos()), "cte / derived / plain arms: rows -> AsArray -> alias wrapper -> query.from", strings.Join(uniq(why), "; "))
}

func ruleC07Alias(c *Ctx) {
	c.Doc("c07.alias", "the alias wrapper (ProcessAlias): without an alias the rows are returned as they are; with an alias the result has the same length and element i is a fresh object {alias: row i} (order preserved)")
	f := c.P.Func(modPath, "ProcessAlias")
	if f == nil {
		c.Unknown("c07.alias", "ProcessAlias", "-", "anchor lost")
		return
	}
	c.Fn("ProcessAlias")
	data, as := f.Params[0].Name(), f.Params[1].Name()
	atoms := []Atom{{Name: "noAlias", Dom: boolDom, Match: func(t *Term) bool {
		return t.Op == "bin" && t.Name == "==" && t.Args[0].Op == "call" && t.Args[0].Name == "builtin:len" && t.Args[0].Args[0].Op == "param" && t.Args[0].Args[0].Name == as && t.Args[1].Name == "0"
	}}}
	tb := BuildTable(f, atoms, false)
	var why []string
	sawPlain, sawWrapped := false, false
	for _, p := range tb.Paths {
		if p.Exit != "return" {
			continue
		}
		na, has := tb.namesOnPath(p)["noAlias"]
		if !has {
			// range reasoning may have decided the test: look at the return
			if p.Ret[0].T != nil && p.Ret[0].T.Op == "param" {
				sawPlain = true
			}
			continue
		}
		if isTrueC(na) {
			sawPlain = true
			if !(p.Ret[0].T != nil && p.Ret[0].T.Op == "param" && p.Ret[0].T.Name == data) {
				why = append(why, "without an alias the rows are not returned as they are")
			}
		} else {
			sawWrapped = true
			if !strings.HasPrefix(p.Ret[0].T.String(), "make:slice") {
				why = append(why, "with an alias the result is "+p.Ret[0].T.String()+", not a fresh slice")
			}
		}
	}
	// the wrapped slice: make([]any, len(data)); slice[i] = Map{as: data[i]}
	okLen, okElem := false, false
	allInstrs(f, func(_ *ssa.BasicBlock, in ssa.Instruction) {
		switch in := in.(type) {
		case *ssa.MakeSlice:
			if t := NewTB().Of(in.Len); t.Op == "call" && t.Name == "builtin:len" && t.Args[0].Op == "param" && t.Args[0].Name == data {
				okLen = true
			}
		case *ssa.MapUpdate:
			k, v := NewTB().Of(in.Key), NewTB().Of(in.Value)
			if k.Op == "param" && k.Name == as && v.Op == "index" && v.Args[0].Op == "param" && v.Args[0].Name == data {
				okElem = true
			}
		}
	})
	// the wrapped object of row i is stored at position i
	okPos, nStores := true, 0
	allInstrs(f, func(_ *ssa.BasicBlock, in ssa.Instruction) {
		st, ok := in.(*ssa.Store)
		if !ok {
			return
		}
		ia, ok := st.Addr.(*ssa.IndexAddr)
		if !ok {
			return
		}
		if _, isMS := ia.X.(*ssa.MakeSlice); !isMS {
			return
		}
		// every store into the result is at the loop's own position
		nStores++
		atLoopIndex := false
		for _, l := range rangeLoops(f) {
			if bo, isB := ia.Index.(*ssa.BinOp); isB && l.over == ssa.Value(f.Params[0]) {
				if _, isPhi := bo.X.(*ssa.Phi); isPhi && bo.Op.String() == "+" {
					if k, isC := constIntOf(bo.Y); isC && k == 1 && bo.Block() == l.header {
						atLoopIndex = true
					}
				}
			}
			if ph, isPhi := ia.Index.(*ssa.Phi); isPhi && ph.Block() == l.header && l.over == ssa.Value(f.Params[0]) {
				atLoopIndex = true // index-loop form
			}
		}
		if !atLoopIndex {
			okPos = false
		}
	})
	if nStores == 0 {
		okPos = false
	}
	if !okPos {
		why = append(why, "the wrapped object of row i is not stored at position i (order not preserved)")
	}
	if !okLen {
		why = append(why, "the wrapped result does not have the length of the input")
	}
	if !okElem {
		why = append(why, "element i is not {alias: row i}")
	}
	if !sawPlain || !sawWrapped {
		why = append(why, fmt.Sprintf("paths: no-alias=%v alias=%v", sawPlain, sawWrapped))
	}
	c.Check(len(why) == 0, "c07.alias", "ProcessAlias", c.P.Pos(f.Pos()), "identity without alias; {alias: row} per row, same length and order, with alias", strings.Join(uniq(why), "; "))
}

// ---- C17 --------------------------------------------------------------------------------------

func byteConstsCompared(fn *ssa.Function) map[int64]bool {
	return runeConstsCompared(fn, func(v ssa.Value) bool { return true })
}

// constCharWrite: the call appends one constant character to a text buffer (WriteRune / WriteByte with a
// constant, or WriteString with a one-character constant, on any buffer type).
func constCharWrite(call *ssa.Call) (int64, bool) {
	name := calleeName(call.Common())
	args := call.Common().Args
	if len(args) == 0 {
		return 0, false
	}
	last := args[len(args)-1]
	switch {
	case strings.HasSuffix(name, ".WriteRune"), strings.HasSuffix(name, ".WriteByte"):
		return constIntOf(last)
	case strings.HasSuffix(name, ".WriteString"):
		if s, ok := constString(last); ok && len(s) == 1 {
			return int64(s[0]), true
		}
	}
	return 0, false
}

func ruleC17QuoteStates(c *Ctx) {
	c.Doc("c17.quote-states", "both hand-written scanners (DoubleQuotesToBackTick, FindArrayIndex) have a case for each of the three quote kinds of the consuming tokenizer (' \" `) and for the backslash; the quote rewriter writes a backtick only inside its double-quote arm (the two writes of '`' are dominated by the r == '\"' arm), and copies single-quoted and backtick-quoted text byte for byte")
	c.NotDecidedClause("C17: equality of results between the two spellings of a query — values computed by hand-written byte scanners over all strings (no structural footprint); only thin necessary conditions are decided")
	for _, name := range []string{"DoubleQuotesToBackTick", "FindArrayIndex"} {
		f := c.P.Func(modPath, name)
		if f == nil {
			c.Unknown("c17.quote-states", name, "-", "anchor lost")
			continue
		}
		c.Fn(name)
		got := byteConstsCompared(f)
		var missing []string
		for _, ch := range []rune{'\'', '"', '`', '\\'} {
			if !got[int64(ch)] {
				missing = append(missing, fmt.Sprintf("%q", ch))
			}
		}
		c.Check(len(missing) == 0, "c17.quote-states", name+"/cases", c.P.Pos(f.Pos()), "cases for ' \" ` and backslash", name+" has no case for "+strings.Join(missing, ","))
	}
	f := c.P.Func(modPath, "DoubleQuotesToBackTick")
	if f == nil {
		return
	}
	// writes of '`' (96) that are not copies of the current byte: only under the '"' arm
	n, bad := 0, ""
	allInstrs(f, func(b *ssa.BasicBlock, in ssa.Instruction) {
		call, ok := in.(*ssa.Call)
		if !ok {
			return
		}
		k, isC := constCharWrite(call)
		if !isC || k != '`' {
			return
		}
		n++
		under := false
		for _, fc := range relFacts(factsAt(b)) {
			if v, isV := constIntOf(fc.y); isV && v == '"' && fc.r == relEQ {
				under = true
			}
		}
		// the opening quote is written in the arm's first block: dominated by r == '"' of the switch
		if !under {
			bad = "a backtick is written at " + c.P.Pos(call.Pos()) + " outside the double-quote arm"
		}
	})
	c.Check(bad == "" && n >= 2, "c17.quote-states", "DoubleQuotesToBackTick/substitution", c.P.Pos(f.Pos()), fmt.Sprintf("%d backtick writes, all under r == '\"'", n), func() string {
		if bad != "" {
			return bad
		}
		return fmt.Sprintf("only %d backtick writes found (opening and closing expected)", n)
	}())
}

func ruleC17BracketGuard(c *Ctx) {
	c.Doc("c17.bracket-guard", "the bracket locator (FindArrayIndex) recognises `[` and `]` only while no quote is open: the block that records a bracket is dominated by the test hold == nil; an unmatched `]` is an error")
	f := c.P.Func(modPath, "FindArrayIndex")
	if f == nil {
		c.Unknown("c17.bracket-guard", "FindArrayIndex", "-", "anchor lost")
		return
	}
	n, bad := 0, ""
	allInstrs(f, func(b *ssa.BasicBlock, in ssa.Instruction) {
		bo, ok := in.(*ssa.BinOp)
		if !ok || bo.Op.String() != "==" {
			return
		}
		k, isC := constIntOf(bo.Y)
		if !isC || (k != '[' && k != ']') {
			return
		}
		n++
		guarded := false
		for _, fc := range relFacts(factsAt(b)) {
			if fc.r != relEQ {
				continue
			}
			// the open-quote state is a loop-carried variable compared with its neutral value: nil (pointer form) or 0 (byte form)
			neutral := isNilConst(fc.y)
			if k0, isK := constIntOf(fc.y); isK && k0 == 0 {
				neutral = true
			}
			if !neutral {
				continue
			}
			if ph, isPhi := fc.x.(*ssa.Phi); isPhi && loopCarried(f, ph) {
				guarded = true
			}
			if isNilConst(fc.y) {
				t := NewTB().Of(fc.x)
				if strings.Contains(t.String(), "hold") || t.Op == "phi" || t.Typ != nil && strings.HasPrefix(t.Typ.String(), "*") {
					guarded = true
				}
			}
		}
		if !guarded {
			bad = fmt.Sprintf("the comparison with %q at %s is reachable while a quote is open", rune(k), c.P.Pos(bo.Pos()))
		}
	})
	c.Check(bad == "" && n >= 2, "c17.bracket-guard", "FindArrayIndex", c.P.Pos(f.Pos()), fmt.Sprintf("%d bracket tests, all under hold == nil", n), func() string {
		if bad != "" {
			return bad
		}
		return "bracket tests not found"
	}())
}

func ruleC17LengthAccounting(c *Ctx) {
	c.Doc("c17.length-accounting", "the bracket rewriter (FixIdiomaticArray): the running offset added per rewritten pair equals the number of bytes inserted in front of the pair's content minus the one byte removed there, computed from the constant operands of the concatenation actually built (len(token) + len(\"(\") - len(\"[\")), and the closing replacement has the length of the bracket it replaces; UNDECIDED if the rewrite is no longer such a concatenation")
	f := c.P.Func(modPath, "FixIdiomaticArray")
	if f == nil {
		c.Unknown("c17.length-accounting", "FixIdiomaticArray", "-", "anchor lost")
		return
	}
	c.Fn("FixIdiomaticArray")
	// string constants concatenated in the loop, in order (walked on the SSA operands directly: the
	// text being rewritten is loop-carried), and the constant added to the offset
	var consts []string
	var inc int64 = -1
	var order []string
	var flatV func(v ssa.Value, cs *[]string, ord *[]string)
	flatV = func(v ssa.Value, cs *[]string, ord *[]string) {
		if bo, ok := v.(*ssa.BinOp); ok && bo.Op.String() == "+" && bo.Type().String() == "string" {
			flatV(bo.X, cs, ord)
			flatV(bo.Y, cs, ord)
			return
		}
		if s, ok := constString(v); ok {
			*cs = append(*cs, s)
			*ord = append(*ord, "c")
			return
		}
		*ord = append(*ord, "s")
	}
	found := false
	allInstrs(f, func(_ *ssa.BasicBlock, in ssa.Instruction) {
		bo, ok := in.(*ssa.BinOp)
		if !ok || bo.Op.String() != "+" || bo.Type().String() != "string" {
			return
		}
		var cs, ord []string
		flatV(bo, &cs, &ord)
		if len(ord) > len(order) {
			consts, order, found = cs, ord, true
		}
	})
	if !found {
		c.Unknown("c17.length-accounting", "FixIdiomaticArray", c.P.Pos(f.Pos()), "the rewrite is not a concatenation of slices and constants")
		return
	}
	if inc < 0 {
		// offset += len(const): the increment is a constant folded by the compiler; look for phi-add of any name
		allInstrs(f, func(_ *ssa.BasicBlock, in ssa.Instruction) {
			if bo, ok := in.(*ssa.BinOp); ok && bo.Op.String() == "+" && bo.Type().String() == "int" {
				if k, isC := constIntOf(bo.Y); isC && k > 1 {
					if _, isPhi := bo.X.(*ssa.Phi); isPhi {
						inc = k
					}
				}
			}
		})
	}
	if len(consts) < 2 || inc < 0 || strings.Join(order, "") != "sccscs" {
		c.Unknown("c17.length-accounting", "FixIdiomaticArray", c.P.Pos(f.Pos()), fmt.Sprintf("unrecognised rewrite shape (parts %s, constants %q, increment %d)", strings.Join(order, ""), consts, inc))
		return
	}
	before := int64(len(consts[0]) + len(consts[1]))
	closing := int64(len(consts[2]))
	ok := inc == before-1 && closing == 1
	c.Check(ok, "c17.length-accounting", "FixIdiomaticArray", c.P.Pos(f.Pos()), fmt.Sprintf("offset += %d == len(%q)+len(%q)-1; closing %q replaces one byte", inc, consts[0], consts[1], consts[2]),
		fmt.Sprintf("the offset grows by %d per pair but %d bytes are inserted before the content and 1 removed (closing replacement %q): later brackets are rewritten at the wrong position", inc, before, consts[2]))
}

func ruleC17OptionOrder(c *Ctx) {
	c.Doc("c17.option-order", "New: the options are applied before any rewriting; Wrapped makes q.data a fresh map whose single entry is \"root\" -> the data parameter (otherwise q.data is the data parameter); the PostgreSQL quote rewrite runs only under its option and before the array rewrite, which runs only under its option, and both run before Parse; each rewriter's error ends New")
	f := c.P.Func(modPath, "New")
	if f == nil {
		c.Unknown("c17.option-order", "New", "-", "anchor lost")
		return
	}
	c.Fn("New")
	atoms := []Atom{
		{Name: "wrapped", Dom: boolDom, Match: func(t *Term) bool { return t.Op == "field" && t.Name == "wrapped" }},
		{Name: "pg", Dom: boolDom, Match: func(t *Term) bool { return t.Op == "field" && t.Name == "postgresEscapingDialect" }},
		{Name: "arr", Dom: boolDom, Match: func(t *Term) bool { return t.Op == "field" && t.Name == "idomaticArrays" }},
	}
	tb := BuildTable(f, atoms, true, func(cfg *WalkCfg) { cfg.MaxVisits = 1 })
	var why []string
	n := 0
	dataP, queryP := f.Params[0].Name(), f.Params[1].Name()
	for _, p := range tb.Paths {
		if p.Exit != "return" || len(p.Ret) != 2 || !p.Ret[1].Nil {
			continue
		}
		nm := tb.namesOnPath(p)
		n++
		iPg, iArr, iParse := -1, -1, -1
		var parseArg *Term
		var dataVal *Term
		wrappedKeyOK := false
		extraKeys := 0
		for i, e := range p.Effects {
			switch {
			case e.Kind == "call" && e.Callee == "DoubleQuotesToBackTick":
				iPg = i
			case e.Kind == "call" && e.Callee == "FixIdiomaticArray":
				iArr = i
			case e.Kind == "call" && e.Callee == "Parse":
				iParse = i
				parseArg = e.Args[0]
			case e.Kind == "store" && e.Args[0].Op == "field" && e.Args[0].Name == "data":
				dataVal = e.Args[1]
			case e.Kind == "mapupdate" && e.Args[1].Name == `"root"` && e.Args[2].Op == "param" && e.Args[2].Name == dataP:
				wrappedKeyOK = true
			case e.Kind == "mapupdate" && strings.HasPrefix(e.Args[0].String(), "make:map"):
				extraKeys++
			}
		}
		w, pg, arr := isTrueC(nm["wrapped"]), isTrueC(nm["pg"]), isTrueC(nm["arr"])
		if iParse < 0 {
			why = append(why, "a success path does not parse the query")
			continue
		}
		if pg != (iPg >= 0) {
			why = append(why, fmt.Sprintf("PostgresEscapingDialect=%v but the quote rewrite ran=%v", pg, iPg >= 0))
		}
		if arr != (iArr >= 0) {
			why = append(why, fmt.Sprintf("IdiomaticArrays=%v but the array rewrite ran=%v", arr, iArr >= 0))
		}
		if iPg >= 0 && iArr >= 0 && iPg > iArr {
			why = append(why, "the array rewrite runs before the quote rewrite")
		}
		if iPg > iParse || iArr > iParse {
			why = append(why, "a rewrite runs after Parse")
		}
		// the parsed text is the (rewritten) query parameter
		want := queryP
		_ = want
		if parseArg != nil {
			ps := parseArg.String()
			switch {
			case arr && !strings.Contains(ps, "FixIdiomaticArray("):
				why = append(why, "with IdiomaticArrays the parsed text is not the array rewriter's output")
			case !arr && pg && !strings.Contains(ps, "DoubleQuotesToBackTick("):
				why = append(why, "with PostgresEscapingDialect the parsed text is not the quote rewriter's output")
			case !arr && !pg && !(parseArg.Op == "param" && parseArg.Name == queryP):
				why = append(why, "without dialect options the parsed text is not the query parameter itself: "+ps)
			}
			if arr && pg && !strings.Contains(ps, "DoubleQuotesToBackTick(") {
				why = append(why, "with both options the array rewriter does not receive the quote rewriter's output")
			}
		}
		if dataVal == nil {
			why = append(why, "q.data is not set")
		} else if w {
			if !strings.HasPrefix(dataVal.String(), "make:map") || !wrappedKeyOK || extraKeys != 0 {
				why = append(why, "Wrapped: q.data is not a fresh map {\"root\": data}")
			}
		} else if !(dataVal.Op == "param" && dataVal.Name == dataP) {
			why = append(why, "without Wrapped q.data is "+dataVal.String()+", not the data parameter")
		}
	}
	if n < 8 {
		why = append(why, fmt.Sprintf("only %d of the 8 option combinations have a success path", n))
	}
	c.Check(len(why) == 0, "c17.option-order", "New", c.P.Pos(f.Pos()), fmt.Sprintf("%d option combinations: rewrites under their flags, quote rewrite first, both before Parse; data shape", n), strings.Join(uniq(why), "; "))
}

// ruleC17TerminationByte: the byte tested for the end of a quoted region is the byte at the
// scanner's current position, never a look-ahead (escaped) byte.
func ruleC17TerminationByte(c *Ctx) {
	c.Doc("c17.termination-byte", "quote rewriter (DoubleQuotesToBackTick): in each quoted-region loop the value compared with the closing quote to end the region is, on every path, the byte read at the loop's own position (str[i] with i the loop-carried position) or a constant — never the byte read ahead after a backslash (str[i+1]): an escaped quote must not end the region")
	f := c.P.Func(modPath, "DoubleQuotesToBackTick")
	if f == nil {
		c.Unknown("c17.termination-byte", "DoubleQuotesToBackTick", "-", "anchor lost")
		return
	}
	n, bad := 0, ""
	deepInstrs(f, func(g *ssa.Function, _ *TB, _ *ssa.BasicBlock, in ssa.Instruction) {
		bo, ok := in.(*ssa.BinOp)
		if !ok || (bo.Op.String() != "!=" && bo.Op.String() != "==") {
			return
		}
		ph, isPhi := bo.X.(*ssa.Phi)
		if !isPhi {
			return
		}
		k, isC := constIntOf(bo.Y)
		if isC && k != 39 && k != 34 && k != 96 {
			return
		}
		if !isC {
			// a helper that serves several regions ends at the byte that opened the region: a byte of the text read
			// outside the loop
			if g == f {
				return
			}
			switch y := bo.Y.(type) {
			case *ssa.UnOp:
				if _, isIA := y.X.(*ssa.IndexAddr); !isIA || inCycle(y.Block()) {
					return
				}
			case *ssa.Lookup:
				if inCycle(y.Block()) {
					return
				}
			case *ssa.Index: // indexing a string
				if inCycle(y.Block()) {
					return
				}
			default:
				return
			}
			n += 2 // stands for the regions of its callers
		}
		// the comparison must steer a loop: its result feeds an If (possibly through the && lowering)
		n++
		seen := map[ssa.Value]bool{}
		var leaf func(v ssa.Value, d int)
		leaf = func(v ssa.Value, d int) {
			if seen[v] || d > 8 || bad != "" {
				return
			}
			seen[v] = true
			switch x := v.(type) {
			case *ssa.Phi:
				for _, e := range x.Edges {
					leaf(e, d+1)
				}
			case *ssa.Const:
			case *ssa.Lookup:
				// a byte of the text (string indexing), at the loop's own position
				if _, isPhiIdx := x.Index.(*ssa.Phi); !isPhiIdx {
					bad = "the region-ending test at " + c.P.Pos(bo.Pos()) + " can see the look-ahead byte " + NewTB().Of(x).String()
				}
			case *ssa.Index:
				if _, isPhiIdx := x.Index.(*ssa.Phi); !isPhiIdx {
					bad = "the region-ending test at " + c.P.Pos(bo.Pos()) + " can see the look-ahead byte " + NewTB().Of(x).String()
				}
			case *ssa.UnOp:
				// the byte itself (no conversion to a rune)
				ia, ok := x.X.(*ssa.IndexAddr)
				if !ok {
					bad = "unrecognised source of the tested byte: " + NewTB().Of(x).String()
					return
				}
				if _, isPhiIdx := ia.Index.(*ssa.Phi); !isPhiIdx {
					bad = "the region-ending test at " + c.P.Pos(bo.Pos()) + " can see the look-ahead byte " + NewTB().Of(x).String()
				}
			case *ssa.Convert:
				ld, ok := x.X.(*ssa.UnOp)
				if !ok {
					ix, isIx := x.X.(*ssa.Index)
					if isIx {
						if _, isPhiIdx := ix.Index.(*ssa.Phi); !isPhiIdx {
							bad = "the region-ending test at " + c.P.Pos(bo.Pos()) + " can see the look-ahead byte " + NewTB().Of(x).String()
						}
						return
					}
					bad = "unrecognised source of the tested byte: " + NewTB().Of(x).String()
					return
				}
				ia, ok := ld.X.(*ssa.IndexAddr)
				if !ok {
					bad = "unrecognised source of the tested byte: " + NewTB().Of(x).String()
					return
				}
				if _, isPhiIdx := ia.Index.(*ssa.Phi); !isPhiIdx {
					bad = "the region-ending test at " + c.P.Pos(bo.Pos()) + " can see the look-ahead byte " + NewTB().Of(x).String()
				}
			default:
				bad = "unrecognised source of the tested byte: " + NewTB().Of(v).String()
			}
		}
		leaf(ph, 0)
	})
	c.Check(n >= 3 && bad == "", "c17.termination-byte", "DoubleQuotesToBackTick", c.P.Pos(f.Pos()), fmt.Sprintf("%d region-ending tests read only the byte at the loop position", n), func() string {
		if bad != "" {
			return bad
		}
		return fmt.Sprintf("only %d region-ending tests found", n)
	}())
}

func init() { register("C07", ruleC07ExistsFreshRows) }

// loopHeaders: every block that is the target of a back edge.
func loopHeaders(f *ssa.Function) []*ssa.BasicBlock {
	var out []*ssa.BasicBlock
	for _, b := range f.Blocks {
		for _, p := range b.Preds {
			if b.Dominates(p) {
				out = append(out, b)
				break
			}
		}
	}
	return out
}

// ruleC07ExistsFreshRows: each nested row of EXISTS is merged into a map of its own.
func ruleC07ExistsFreshRows(c *Ctx) {
	c.Doc("c07.exists-fresh-row", "EXISTS: every element stored into the nested source (from[i] = merged) is a map made inside the loop over the nested rows — one merged row per nested element; a single map re-filled for every element would leave all source rows showing the last element's columns")
	f := c.theFunc("EXISTS", "*sqlparser.ExistsExpr", "ExistExpr")
	if f == nil {
		c.Unknown("c07.exists-fresh-row", "ExistExpr", "-", "anchor lost")
		return
	}
	hs := loopHeaders(f)
	n := 0
	var why []string
	allInstrs(f, func(b *ssa.BasicBlock, in ssa.Instruction) {
		st, ok := in.(*ssa.Store)
		if !ok {
			return
		}
		ia, ok := st.Addr.(*ssa.IndexAddr)
		if !ok || shortType(ia.X.Type()) != "[]any" {
			return
		}
		inLoop := false
		for _, h := range hs {
			if inNaturalLoop(h, b) {
				inLoop = true
			}
		}
		if !inLoop {
			return
		}
		n++
		v := st.Val
		if mi, isMI := v.(*ssa.MakeInterface); isMI {
			v = mi.X
		}
		mm, isMM := v.(*ssa.MakeMap)
		if !isMM {
			// a helper called for this element that makes the merged row and returns it (one map per call)
			if call, isCall := v.(*ssa.Call); isCall && isUnknownHelper(call.Common().StaticCallee()) {
				fresh, inLoopCall := true, false
				for _, h := range hs {
					if inNaturalLoop(h, call.Block()) {
						inLoopCall = true
					}
				}
				allInstrs(call.Common().StaticCallee(), func(_ *ssa.BasicBlock, hin ssa.Instruction) {
					if r, isRet := hin.(*ssa.Return); isRet && len(r.Results) > 0 {
						rv := r.Results[0]
						if mi, isMI := rv.(*ssa.MakeInterface); isMI {
							rv = mi.X
						}
						if _, isMake := rv.(*ssa.MakeMap); !isMake {
							fresh = false
						}
					}
				})
				if fresh && inLoopCall {
					return
				}
			}
			why = append(why, "the element stored at "+c.P.Pos(st.Pos())+" is "+NewTB().Of(v).String()+", not a map made for this element")
			return
		}
		for _, h := range hs {
			if inNaturalLoop(h, b) && !inNaturalLoop(h, mm.Block()) {
				why = append(why, "the row stored at "+c.P.Pos(st.Pos())+" is a map made at "+c.P.Pos(mm.Pos())+", outside the loop over the nested rows: every source row is the same object")
			}
		}
	})
	if n == 0 {
		why = append(why, "no store of a merged row into the nested source found")
	}
	c.Check(len(why) == 0, "c07.exists-fresh-row", c.P.funcKey(f), c.P.Pos(f.Pos()), fmt.Sprintf("%d element stores, each of a map made inside the loop", n), strings.Join(uniq(why), "; "))
}

func init() { register("C17", ruleC17EscapeSkip) }

// addConst unfolds t = (((base + a) + b) ...) into base and the sum of the integer constants.
func addConst(t *Term) (*Term, int64) {
	var k int64
	for t != nil && t.Op == "bin" && t.Name == "+" && len(t.Args) == 2 {
		c, ok := t.Args[1].V.(*ssa.Const)
		if !ok || t.Args[1].Op != "const" {
			break
		}
		v, isInt := constIntOf(c)
		if !isInt {
			break
		}
		k += v
		t = t.Args[0]
	}
	return t, k
}

// ruleC17EscapeSkip: inside a '...' literal a backslash takes the next byte with it, whatever it is.
func ruleC17EscapeSkip(c *Ctx) {
	c.Doc("c17.escape-skip", "quote rewriter (DoubleQuotesToBackTick), single-quote region: on every path of an iteration that read a backslash, the position advances by exactly two (the backslash and the byte after it, unconditionally — as the consuming tokenizer's string scanner does) or the function returns an error; so `'x\\\\'` ends at its closing quote and the identifiers after it are still rewritten")
	f := c.P.Func(modPath, "DoubleQuotesToBackTick")
	if f == nil {
		c.Unknown("c17.escape-skip", "DoubleQuotesToBackTick", "-", "anchor lost")
		return
	}
	// the single-quote region loop: the header whose loop condition compares a byte with '\'' — in the rewriter itself
	// (an inner loop), or in a helper the region copies were moved to, where the loop ends at the byte that opened the
	// region (a value read before the loop) and honours the backslash
	var region *ssa.BasicBlock
	top := f
	cands := []*ssa.Function{top}
	allInstrs(top, func(_ *ssa.BasicBlock, in ssa.Instruction) {
		if call, ok := in.(*ssa.Call); ok && isUnknownHelper(call.Common().StaticCallee()) {
			cands = append(cands, call.Common().StaticCallee())
		}
	})
	for _, g := range cands {
		hs := loopHeaders(g)
		for _, h := range hs {
			isInner := false
			for _, o := range hs {
				if o != h && inNaturalLoop(o, h) {
					isInner = true
				}
			}
			if !isInner && g == top {
				continue
			}
			endsAtQuote, hasBackslash := false, false
			for _, b := range g.Blocks {
				if b != h && !inNaturalLoop(h, b) {
					continue
				}
				for _, in := range b.Instrs {
					bo, ok := in.(*ssa.BinOp)
					if !ok || (bo.Op != token.NEQ && bo.Op != token.EQL) {
						continue
					}
					if _, isPhi := bo.X.(*ssa.Phi); !isPhi {
						if k, isK := constIntOf(bo.Y); isK && k == 92 {
							hasBackslash = true
						}
						continue
					}
					if k, isK := constIntOf(bo.Y); isK {
						if k == 39 {
							endsAtQuote = true
						}
						if k == 92 {
							hasBackslash = true
						}
					} else if g != top {
						// the opening byte: defined outside the loop
						if yi, isI := bo.Y.(ssa.Instruction); isI && yi.Block() != nil && !inNaturalLoop(h, yi.Block()) && yi.Block() != h {
							endsAtQuote = true
						}
					}
				}
			}
			if endsAtQuote && (g == top || hasBackslash) && region == nil {
				region, f = h, g
			}
		}
	}
	if region == nil {
		c.Unknown("c17.escape-skip", "DoubleQuotesToBackTick/'-region", c.P.Pos(f.Pos()), "anchor lost: no inner loop ended by a comparison with the single quote")
		return
	}
	var pos *ssa.Phi
	for _, in := range region.Instrs {
		if ph, ok := in.(*ssa.Phi); ok && ph.Type().String() == "int" {
			pos = ph
		}
	}
	if pos == nil {
		c.Unknown("c17.escape-skip", "DoubleQuotesToBackTick/'-region", c.P.Pos(region.Instrs[0].Pos()), "anchor lost: no loop-carried position")
		return
	}
	n := 0
	var why []string
	for _, b := range f.Blocks {
		if !inNaturalLoop(region, b) || len(b.Instrs) == 0 {
			continue
		}
		iff, ok := b.Instrs[len(b.Instrs)-1].(*ssa.If)
		if !ok {
			continue
		}
		bo, ok := iff.Cond.(*ssa.BinOp)
		if !ok {
			continue
		}
		k, isK := constIntOf(bo.Y)
		if !isK || k != 92 || (bo.Op != token.EQL && bo.Op != token.NEQ) {
			continue
		}
		n++
		succ := b.Succs[0]
		if bo.Op == token.NEQ {
			succ = b.Succs[1]
		}
		paths, err := WalkFrom(f, succ, b, WalkCfg{StopAt: func(x *ssa.BasicBlock) bool { return x == region }, MaxVisits: 1, MaxPaths: 2000})
		if err != nil {
			c.Unknown("c17.escape-skip", "DoubleQuotesToBackTick/'-region", c.P.Pos(bo.Pos()), err.Error())
			return
		}
		stops := 0
		for _, p := range paths {
			switch p.Exit {
			case "return":
				if len(p.Ret) == 2 && p.Ret[1].Nil {
					why = append(why, "the function returns successfully from inside an escape")
				}
			case "stop":
				stops++
				in, has := p.PhiIn[pos]
				base, adv := addConst(in.T)
				if !has || base == nil || base.V != ssa.Value(pos) || adv != 2 {
					why = append(why, fmt.Sprintf("after a backslash the position becomes %s (an advance of exactly 2 is required on every path: the escaped byte is consumed whatever it is)", termStr(in.T)))
				}
			default:
				why = append(why, "a path after a backslash ends with "+p.Exit)
			}
		}
		if stops == 0 {
			why = append(why, "no path continues the region after a backslash")
		}
	}
	if n == 0 {
		why = append(why, "the single-quote region has no backslash test")
	}
	c.Check(len(why) == 0, "c17.escape-skip", "DoubleQuotesToBackTick/'-region", c.P.Pos(region.Instrs[0].Pos()), fmt.Sprintf("%d backslash tests: every continuing path advances by 2", n), strings.Join(uniq(why), "; "))
}

func init() { register("C17", ruleC17PrepareData); register("C07", ruleC17PrepareData) }

// ruleC17PrepareData: nested statements run over exactly the document they are given.
func ruleC17PrepareData(c *Ctx) {
	c.Doc("c17.prepare-data", "Prepare (used for every nested statement: subqueries, EXISTS, CTE bodies, derived tables, union branches) stores its data parameter itself into the new query's data — the Wrapped option is applied once, by New, to the caller's document; Query.data is otherwise written only by New (the document or its `root` wrapper), the CTE builder (the registry copy) and CopyQuery")
	f := c.P.Func(modPath, "Prepare")
	if f == nil {
		c.Unknown("c17.prepare-data", "Prepare", "-", "anchor lost")
		return
	}
	dp := paramNameOfType(f, "Map")
	allowed := map[string]string{"New": "the caller's document or its root wrapper", "Prepare": "the data parameter", "BuildCte": "the registry: a copy of the data plus the lazy CTEs", "CopyQuery": "copied for re-evaluation"}
	n := 0
	for _, g := range c.P.ModFuncs {
		if len(g.TypeArgs()) > 0 {
			continue
		}
		root := g
		for root.Parent() != nil {
			root = root.Parent()
		}
		allInstrs(g, func(_ *ssa.BasicBlock, in ssa.Instruction) {
			st, ok := in.(*ssa.Store)
			if !ok {
				return
			}
			fa, ok := st.Addr.(*ssa.FieldAddr)
			if !ok {
				return
			}
			pt, ok := fa.X.Type().Underlying().(*types.Pointer)
			if !ok || shortType(pt.Elem()) != "Query" || fieldName(pt.Elem(), fa.Field) != "data" {
				return
			}
			n++
			reason, isAllowed := allowed[root.Name()]
			key := "Query.data <- " + c.P.funcKey(g)
			if !isAllowed {
				c.Fail("c17.prepare-data", key, c.P.Pos(st.Pos()), "Query.data is assigned in "+c.P.funcKey(g)+", which is not New, Prepare, the CTE builder or CopyQuery")
				return
			}
			if root == f {
				p, isP := st.Val.(*ssa.Parameter)
				c.Check(isP && p.Name() == dp, "c17.prepare-data", key, c.P.Pos(st.Pos()), "the data parameter itself", "Prepare stores "+NewTB().Of(st.Val).String()+" instead of its data parameter: a nested statement (which receives the current row or the already wrapped document) runs over something else")
				return
			}
			c.Pass("c17.prepare-data", key, c.P.Pos(st.Pos()), reason)
		})
	}
	if n < 3 {
		c.Unknown("c17.prepare-data", "Query.data", "-", fmt.Sprintf("only %d stores to Query.data found", n))
	}
}

// loopCarried: the phi is (or merges, through other phis) a phi of a loop header.
func loopCarried(f *ssa.Function, ph *ssa.Phi) bool {
	hs := map[*ssa.BasicBlock]bool{}
	for _, h := range loopHeaders(f) {
		hs[h] = true
	}
	seen := map[*ssa.Phi]bool{}
	var visit func(p *ssa.Phi) bool
	visit = func(p *ssa.Phi) bool {
		if seen[p] {
			return false
		}
		seen[p] = true
		if hs[p.Block()] {
			return true
		}
		for _, e := range p.Edges {
			if q, ok := e.(*ssa.Phi); ok && visit(q) {
				return true
			}
		}
		return false
	}
	return visit(ph)
}

func init() { register("C17", ruleC17ByteCopy) }

// ruleC17ByteCopy: the rewriters copy the bytes of the statement as bytes.
func ruleC17ByteCopy(c *Ctx) {
	c.Doc("c17.byte-copy", "quote rewriter (DoubleQuotesToBackTick): a byte of the input is written with WriteByte; WriteRune (and string(rune) conversions) are applied to constants only — writing the byte str[i] as a rune re-encodes every byte >= 0x80 as two bytes and corrupts non-ASCII literals and identifiers")
	f := c.P.Func(modPath, "DoubleQuotesToBackTick")
	if f == nil {
		c.Unknown("c17.byte-copy", "DoubleQuotesToBackTick", "-", "anchor lost")
		return
	}
	var why []string
	nWrites := 0
	isConstRune := func(v ssa.Value) bool {
		for {
			switch x := v.(type) {
			case *ssa.Const:
				return true
			case *ssa.Convert:
				v = x.X
				continue
			case *ssa.Phi:
				// a rune variable that also receives input bytes
				return false
			}
			return false
		}
	}
	deepInstrs(f, func(g *ssa.Function, _ *TB, _ *ssa.BasicBlock, in ssa.Instruction) {
		switch x := in.(type) {
		case *ssa.Call:
			name := calleeName(x.Common())
			if strings.HasSuffix(name, ".WriteRune") || strings.HasSuffix(name, ".WriteByte") || strings.HasSuffix(name, ".WriteString") || strings.HasSuffix(name, ".Write") {
				nWrites++
			}
			if strings.HasSuffix(name, ".WriteRune") && len(x.Common().Args) >= 2 && !isConstRune(x.Common().Args[len(x.Common().Args)-1]) {
				why = append(why, "an input byte is written as a rune at "+c.P.Pos(x.Pos())+": bytes >= 0x80 are re-encoded")
			}
		case *ssa.Convert:
			// string(rune) / string(byte) of a non-constant value
			if bt, ok := x.Type().Underlying().(*types.Basic); ok && bt.Kind() == types.String {
				if st, ok := x.X.Type().Underlying().(*types.Basic); ok && st.Info()&types.IsInteger != 0 && !isConstRune(x.X) {
					why = append(why, "an input byte is converted with string(rune) at "+c.P.Pos(x.Pos())+": bytes >= 0x80 are re-encoded")
				}
			}
		}
	})
	if nWrites == 0 {
		why = append(why, "no buffer writes found")
	}
	c.Check(len(why) == 0, "c17.byte-copy", "DoubleQuotesToBackTick", c.P.Pos(f.Pos()), fmt.Sprintf("%d buffer writes; runes written are constants", nWrites), strings.Join(uniq(why), "; "))
}

// isMemoThunk: t is a closure all of whose paths return (the rows captured from run, nil).
func isMemoThunk(t *Term, run ssa.Value) bool {
	if t == nil || t.Op != "closure" {
		return false
	}
	mc, ok := t.V.(*ssa.MakeClosure)
	if !ok {
		return false
	}
	fn := mc.Fn.(*ssa.Function)
	isRows := func(v ssa.Value) bool {
		ex, ok := v.(*ssa.Extract)
		return ok && ex.Index == 0 && ex.Tuple == run
	}
	good := map[string]bool{} // free variables bound to the rows
	for i, b := range mc.Bindings {
		if i >= len(fn.FreeVars) {
			continue
		}
		if isRows(b) {
			good[fn.FreeVars[i].Name()] = true
		}
		if al, isAl := b.(*ssa.Alloc); isAl && al.Referrers() != nil {
			n, all := 0, true
			for _, r := range *al.Referrers() {
				if st, isSt := r.(*ssa.Store); isSt && st.Addr == ssa.Value(al) {
					n++
					if !isRows(st.Val) {
						all = false
					}
				}
			}
			if n > 0 && all {
				good[fn.FreeVars[i].Name()] = true
			}
		}
	}
	paths, err := WalkFunc(fn, WalkCfg{MaxVisits: 1})
	if err != nil || len(paths) == 0 {
		return false
	}
	for _, p := range paths {
		if p.Exit != "return" || len(p.Ret) != 2 || !p.Ret[1].Nil || p.Ret[0].T == nil {
			return false
		}
		r := p.Ret[0].T
		if r.Op == "load" && len(r.Args) == 1 {
			r = r.Args[0]
		}
		if r.Op != "freevar" || !good[r.Name] {
			return false
		}
		for _, e := range p.Effects {
			if e.Kind == "call" || e.Kind == "mapupdate" || e.Kind == "store" {
				return false
			}
		}
	}
	return true
}

// a subquery on the right of IN / NOT IN: both arms read the single column of its rows (c01.in-siblings)
func init() { register("C07", ruleC01Membership) }

func init() { register("C07", ruleC07FunctionOnThunk); register("C09", ruleC07FunctionOnThunk) }

// ruleC07FunctionOnThunk: a top-level selector function never receives an unevaluated CTE.
func ruleC07FunctionOnThunk(c *Ctx) {
	c.Doc("c07.function-on-thunk", "top-level selector functions (ReaderExecutor): on every path that calls the function, its argument is either the evaluated result of a lazy CTE thunk or the reader's result with the thunk type test false — `distinct=>cte` / `mix=>cte` see the CTE's rows as they would see plain input")
	f := c.P.Func(modPath, "ReaderExecutor")
	if f == nil {
		c.Unknown("c07.function-on-thunk", "ReaderExecutor", "-", "anchor lost")
		return
	}
	c.Fn("ReaderExecutor")
	paths, err := WalkFunc(f, WalkCfg{MaxVisits: 1})
	if err != nil {
		c.Unknown("c07.function-on-thunk", "ReaderExecutor", c.P.Pos(f.Pos()), err.Error())
		return
	}
	var why []string
	n := 0
	for _, p := range paths {
		// the call of the looked-up function: a dynamic call whose callee is the map lookup
		var fnCall *Effect
		for i := range p.Effects {
			e := &p.Effects[i]
			if e.Kind == "call" && e.Callee == "dyn" && len(e.Args) == 2 && strings.Contains(e.Args[0].String(), "topLevelFunctions") {
				fnCall = e
			}
		}
		if fnCall == nil {
			continue
		}
		n++
		arg := fnCall.Args[1]
		// the value that is tested for being a lazy table is what the selectors resolved to, not the document they were
		// read from (round 11: `data.(func() (any, error))` for `rs.(…)` — the same type; `mix=>t` over a CTE hands the
		// unevaluated closure to the function)
		for k := range p.Asg {
			kt := p.KeyTerm[k]
			if kt != nil && kt.Op == "ext" && kt.Name == "1" && kt.Args[0].Op == "assertok" && (kt.Args[0].Name == "func() (any, error)" || kt.Args[0].Name == "CteEvaluation") {
				if op := kt.Args[0].Args[0]; op.Op == "param" {
					why = append(why, "the test for a lazy table looks at the parameter "+op.Name+", the document the selectors are read from, not at the value they resolved to: `mix=>cte` hands the unevaluated table to the function")
				}
			}
		}
		if x := ext0(arg); x != nil && x.Op == "call" && x.Name == "dyn" {
			continue // the result of calling the thunk
		}
		tested := false
		for k, v := range p.Asg {
			kt := p.KeyTerm[k]
			if kt != nil && kt.Op == "ext" && kt.Name == "1" && kt.Args[0].Op == "assertok" && (kt.Args[0].Name == "func() (any, error)" || kt.Args[0].Name == "CteEvaluation") && !isTrueC(v) {
				tested = true
			}
		}
		if !tested {
			why = append(why, "the function is applied to "+arg.String()+" without excluding a lazy CTE thunk: `distinct=>cte` fails (or sees a func value) where plain input works")
		}
	}
	if n == 0 {
		why = append(why, "no path applies a top-level function")
	}
	c.Check(len(why) == 0, "c07.function-on-thunk", "ReaderExecutor", c.P.Pos(f.Pos()), fmt.Sprintf("%d paths apply the function, none to an unevaluated thunk", n), strings.Join(uniq(why), "; "))
}

func init() { register("C17", ruleC17BacktickDoubled) }

// ruleC17BacktickDoubled: a backtick inside a double-quoted identifier survives the change of delimiter.
func ruleC17BacktickDoubled(c *Ctx) {
	c.Doc("c17.backtick-doubled", "quote rewriter (DoubleQuotesToBackTick), double-quote region: the region is re-delimited with backticks, so a backtick byte of the identifier is written twice (a comparison of the region's byte with '`' whose true branch writes an extra '`'); copied as it is, \"x`y\" becomes `x`y`, a syntax error")
	f := c.P.Func(modPath, "DoubleQuotesToBackTick")
	if f == nil {
		c.Unknown("c17.backtick-doubled", "DoubleQuotesToBackTick", "-", "anchor lost")
		return
	}
	// the double-quote region loop: the inner loop whose blocks compare a byte with '"' (34)
	var region *ssa.BasicBlock
	hs := loopHeaders(f)
	for _, h := range hs {
		inner := false
		for _, o := range hs {
			if o != h && inNaturalLoop(o, h) {
				inner = true
			}
		}
		if !inner {
			continue
		}
		for _, b := range f.Blocks {
			if b != h && !inNaturalLoop(h, b) {
				continue
			}
			for _, in := range b.Instrs {
				if bo, ok := in.(*ssa.BinOp); ok && (bo.Op == token.EQL || bo.Op == token.NEQ) {
					if k, isK := constIntOf(bo.Y); isK && k == 34 {
						region = h
					}
				}
			}
		}
	}
	if region == nil {
		c.Unknown("c17.backtick-doubled", "DoubleQuotesToBackTick/\"-region", c.P.Pos(f.Pos()), "anchor lost: no inner loop that compares with the double quote")
		return
	}
	doubled := false
	for _, b := range f.Blocks {
		if !inNaturalLoop(region, b) || len(b.Instrs) == 0 {
			continue
		}
		iff, ok := b.Instrs[len(b.Instrs)-1].(*ssa.If)
		if !ok {
			continue
		}
		bo, ok := iff.Cond.(*ssa.BinOp)
		if !ok || bo.Op != token.EQL {
			continue
		}
		if k, isK := constIntOf(bo.Y); !isK || k != 96 {
			continue
		}
		for _, in := range b.Succs[0].Instrs {
			if call, isCall := in.(*ssa.Call); isCall {
				name := calleeName(call.Common())
				if strings.HasSuffix(name, ".WriteByte") || strings.HasSuffix(name, ".WriteRune") {
					if k, isK := constIntOf(call.Common().Args[len(call.Common().Args)-1]); isK && k == 96 {
						doubled = true
					}
				}
			}
		}
	}
	c.Check(doubled, "c17.backtick-doubled", "DoubleQuotesToBackTick/\"-region", c.P.Pos(region.Instrs[0].Pos()), "a backtick of the identifier is written twice", "a backtick inside a double-quoted identifier is copied as it is into the backtick-delimited identifier: `SELECT a AS \"x`y\" FROM t` fails with a syntax error under PostgresEscapingDialect while the backtick spelling works")
}

func init() { register("C17", ruleC17BracketEscapeScope) }

// ruleC17BracketEscapeScope: in the bracket locator a backslash escapes only inside a string literal.
func ruleC17BracketEscapeScope(c *Ctx) {
	c.Doc("c17.bracket-escape-scope", "bracket locator (FindArrayIndex): the skip of the byte after a backslash is reachable only while a string quote is open and that quote is not the backtick (dominated by a test of the open quote against '`'): inside a backtick identifier, and outside any quote, a backslash is an ordinary character for the tokenizer — skipping the closing backtick after `x\\` leaves the locator in identifier mode and the array literals that follow are not rewritten")
	f := c.P.Func(modPath, "FindArrayIndex")
	if f == nil {
		c.Unknown("c17.bracket-escape-scope", "FindArrayIndex", "-", "anchor lost")
		return
	}
	n, bad := 0, ""
	allInstrs(f, func(b *ssa.BasicBlock, in ssa.Instruction) {
		bo, ok := in.(*ssa.BinOp)
		if !ok || bo.Op != token.ADD {
			return
		}
		if k, isK := constIntOf(bo.Y); !isK || k != 1 {
			return
		}
		inBackslashArm, scoped := false, false
		dependsOnNext := ""
		for _, fc := range relFacts(factsAt(b)) {
			if _, xC := fc.x.(*ssa.Const); !xC {
				if _, yC := fc.y.(*ssa.Const); !yC && (fc.r == relEQ || fc.r == relNE) {
					// a comparison of two run-time values in front of the skip (the byte after the backslash against the
					// open quote, say): whether the backslash escapes then depends on what follows it
					dependsOnNext = NewTB().Of(fc.x).String() + " vs " + NewTB().Of(fc.y).String()
				}
			}
			k, isK := constIntOf(fc.y)
			if !isK {
				continue
			}
			if k == 92 && fc.r == relEQ {
				inBackslashArm = true
			}
			if k == 96 && fc.r == relNE {
				scoped = true
			}
		}
		if !inBackslashArm {
			return
		}
		n++
		if dependsOnNext != "" {
			bad = "inside a string literal the byte after a backslash is skipped only under a condition on run-time values (" + dependsOnNext + ") at " + c.P.Pos(bo.Pos()) + ": the tokenizer pairs EVERY backslash with the byte that follows, so `'C:\\\\'` (an escaped backslash in front of the closing quote) leaves the locator inside the string and the brackets of later literals are rewritten"
		}
		if !scoped {
			bad = "the byte after a backslash is skipped at " + c.P.Pos(bo.Pos()) + " whatever quote is open: inside a backtick identifier the closing backtick can be skipped (`x\\`) and the brackets that follow are not rewritten"
		}
	})
	c.Check(n > 0 && bad == "", "c17.bracket-escape-scope", "FindArrayIndex", c.P.Pos(f.Pos()), fmt.Sprintf("%d escape skips, only inside a non-backtick quote", n), func() string {
		if bad != "" {
			return bad
		}
		return "no escape skip found in the backslash arm"
	}())
}

func init() { register("C17", ruleC17QuoteCloseMatches) }

// ruleC17QuoteCloseMatches: an open quote is closed only by the same quote character.
func ruleC17QuoteCloseMatches(c *Ctx) {
	c.Doc("c17.quote-close-matches", "bracket locator (FindArrayIndex): inside the scan loop the open-quote state returns to its neutral value (nil / 0) only on a path that compared the state with the current quote character and found them equal — a `'` inside a \"...\" string (or a `\"` inside '...') does not close it; a locator that toggles on any quote character mistakes the rest of the string for SQL and rewrites its brackets")
	f := c.P.Func(modPath, "FindArrayIndex")
	if f == nil {
		c.Unknown("c17.quote-close-matches", "FindArrayIndex", "-", "anchor lost")
		return
	}
	hs := loopHeaders(f)
	inLoop := func(b *ssa.BasicBlock) bool {
		for _, h := range hs {
			if b == h || inNaturalLoop(h, b) {
				return true
			}
		}
		return false
	}
	isNeutral := func(v ssa.Value) bool {
		if cst, ok := v.(*ssa.Const); ok {
			if cst.IsNil() {
				return true
			}
			if k, isK := constIntOf(cst); isK && k == 0 {
				return true
			}
		}
		return false
	}
	// state phis: loop-carried phis of pointer or small integer/bool type that receive the neutral value
	stateDerived := func(v ssa.Value, state map[*ssa.Phi]bool) bool {
		for d := 0; d < 4 && v != nil; d++ {
			switch x := v.(type) {
			case *ssa.Phi:
				if state[x] {
					return true
				}
				return false
			case *ssa.UnOp:
				v = x.X
			case *ssa.Convert:
				v = x.X
			default:
				return false
			}
		}
		return false
	}
	state := map[*ssa.Phi]bool{}
	neutralPhis, otherPhis := map[*ssa.Phi]bool{}, map[*ssa.Phi]bool{}
	var cands []*ssa.Phi
	for _, b := range f.Blocks {
		for _, in := range b.Instrs {
			ph, ok := in.(*ssa.Phi)
			if !ok || !loopCarried(f, ph) {
				continue
			}
			ts := ph.Type().String()
			if !(strings.HasPrefix(ts, "*") || ts == "uint8" || ts == "byte" || ts == "rune" || ts == "int32" || ts == "bool") {
				continue
			}
			hasNeutral, hasOther := false, false
			for _, e := range ph.Edges {
				if isNeutral(e) || (ts == "bool" && func() bool { cst, ok := e.(*ssa.Const); return ok && cst.Value != nil && !constant.BoolVal(cst.Value) }()) {
					hasNeutral = true
				} else if _, isPhi := e.(*ssa.Phi); !isPhi {
					hasOther = true
				}
			}
			if hasNeutral {
				neutralPhis[ph] = true
			}
			if hasOther {
				otherPhis[ph] = true
			}
			cands = append(cands, ph)
		}
	}
	// the variable is a family of phis connected through their edges (header phi, merge phis after the switch)
	for _, seed := range cands {
		fam := map[*ssa.Phi]bool{}
		var grow func(p *ssa.Phi)
		grow = func(p *ssa.Phi) {
			if fam[p] {
				return
			}
			fam[p] = true
			for _, e := range p.Edges {
				if q, ok := e.(*ssa.Phi); ok {
					grow(q)
				}
			}
			for _, q := range cands {
				for _, e := range q.Edges {
					if e == ssa.Value(p) {
						grow(q)
					}
				}
			}
		}
		grow(seed)
		hasN, hasO := false, false
		for q := range fam {
			hasN = hasN || neutralPhis[q]
			hasO = hasO || otherPhis[q]
		}
		if hasN && hasO {
			for q := range fam {
				state[q] = true
			}
		}
	}
	if len(state) == 0 {
		c.Unknown("c17.quote-close-matches", "FindArrayIndex", c.P.Pos(f.Pos()), "anchor lost: no open-quote state variable")
		return
	}
	n := 0
	var why []string
	for ph := range state {
		for i, e := range ph.Edges {
			pred := ph.Block().Preds[i]
			neutral := isNeutral(e)
			if cst, ok := e.(*ssa.Const); ok && ph.Type().String() == "bool" && cst.Value != nil && !constant.BoolVal(cst.Value) {
				neutral = true
			}
			if !neutral || !inLoop(pred) {
				continue
			}
			// a reset inside the loop (not the initial value)
			if !ph.Block().Dominates(pred) && !inLoop(ph.Block()) {
				continue
			}
			isInit := true
			for _, h := range hs {
				if h.Dominates(pred) {
					isInit = false
				}
			}
			if isInit {
				continue
			}
			n++
			matched := false
			for _, fc := range relFacts(factsOnEdge(pred, ph.Block())) {
				if fc.r == relEQ && (stateDerived(fc.x, state) || stateDerived(fc.y, state)) && !isNeutral(fc.x) && !isNeutral(fc.y) {
					matched = true
				}
			}
			if !matched {
				why = append(why, "the open-quote state is reset at "+c.P.Pos(pred.Instrs[len(pred.Instrs)-1].Pos())+" without comparing it with the current quote character: any quote closes the open region")
			}
		}
	}
	if n == 0 {
		why = append(why, "the open-quote state is never reset inside the loop")
	}
	c.Check(len(why) == 0, "c17.quote-close-matches", "FindArrayIndex", c.P.Pos(f.Pos()), fmt.Sprintf("%d resets of the open-quote state, each after an equality test with the current quote", n), strings.Join(uniq(why), "; "))
}

func init() { register("C07", ruleC07RegistryFresh) }

// ruleC07RegistryFresh: the CTEs of a WITH are registered in a registry of that statement's own.
func ruleC07RegistryFresh(c *Ctx) {
	c.Doc("c07.registry-fresh", "BuildCte registers the common table expressions of a WITH into a map made by that very call (a copy of the enclosing registry), never into the enclosing registry itself: BuildCte also runs for CTE bodies and derived tables, which share the outer registry, so a nested WITH that registered in place would replace an outer CTE (or an input table) of the same name for the rest of the outer query")
	f := c.theFunc("CTE builder", "*sqlparser.With", "BuildCte")
	if f == nil {
		c.Unknown("c07.registry-fresh", "BuildCte", "-", "anchor lost")
		return
	}
	n := 0
	tb := NewTB()
	allInstrs(f, func(_ *ssa.BasicBlock, in ssa.Instruction) {
		mu, ok := in.(*ssa.MapUpdate)
		if !ok {
			return
		}
		mi, isMI := mu.Value.(*ssa.MakeInterface)
		if !isMI || !isThunkType(mi.X.Type()) {
			return
		}
		n++
		t := tb.Of(mu.Map)
		c.Check(t.Op == "make" && strings.HasPrefix(t.Name, "map"), "c07.registry-fresh", fmt.Sprintf("BuildCte/registration#%d", n), c.P.Pos(mu.Pos()), "the entry goes into a map made by this call", "a CTE is registered into "+t.String()+": the registry of the enclosing statement gains (or loses to) the names of a nested WITH")
		// the name of a CTE wins over an entry of the enclosing registry (the input document, an outer CTE): the unconditional
		// copy of the enclosing entries into the registry cannot run once a CTE has been registered
		why := ""
		for _, mc := range mapCopies(f) {
			if mc.Cond || !(sameValue(mc.Dst, mu.Map) || tb.Of(mc.Dst).String() == t.String()) {
				continue
			}
			if mc.Block == mu.Block() || reaches(mu.Block(), mc.Block) {
				why = "the entries of the enclosing registry are copied over the registry at " + c.P.Pos(mc.Pos) + " after a CTE was registered at " + c.P.Pos(mu.Pos()) + ": a key of the input document (or an outer CTE) silently replaces the CTE of the same name"
			}
		}
		// ... nor at the exit of the builder: a copy made by a deferred closure runs after every registration
		for _, g := range withClosures(f) {
			if g == f {
				continue
			}
			var mk *ssa.MakeClosure
			allInstrs(f, func(_ *ssa.BasicBlock, fin ssa.Instruction) {
				if d, isD := fin.(*ssa.Defer); isD {
					if m, isMC := d.Call.Value.(*ssa.MakeClosure); isMC && m.Fn == ssa.Value(g) {
						mk = m
					}
				}
			})
			if mk == nil {
				continue
			}
			gtb := closureTB(mk, tb)
			for _, mc := range mapCopies(g) {
				if !mc.Cond && gtb.Of(mc.Dst).String() == t.String() {
					why = "the entries of the enclosing registry are copied over the registry by a deferred closure at " + c.P.Pos(mc.Pos) + ", i.e. after every CTE was registered: a key of the input document (or an outer CTE) silently replaces the CTE of the same name"
				}
			}
		}
		c.Check(why == "", "c07.registry-fresh", fmt.Sprintf("BuildCte/registration#%d/wins-over-copied-entries", n), c.P.Pos(mu.Pos()), "no unconditional copy into the registry after the registration", why)
	})
	if n == 0 {
		c.Unknown("c07.registry-fresh", "BuildCte", c.P.Pos(f.Pos()), "anchor lost: no registration of a lazy CTE")
	}
}

// `x IN (SELECT …)` and comparisons with a scalar subquery read the subquery's value: it must be the nested result itself (C01)
func init() { register("C01", ruleC07ScopeArg) }

// with the IdomaticArrays option the sanitised text is rewritten by the bracket locator before it is parsed: its quote
// and escape handling is part of the sanitizer round trip (C16) as well
func init() {
	register("C16", ruleC17BracketGuard, ruleC17BracketEscapeScope, ruleC17QuoteCloseMatches)
}

// the registry copy is also what keeps the caller's document (C11) and the wrapped root (C17) free of CTE entries
func init() { register("C11", ruleC07RegistryFresh); register("C17", ruleC07RegistryFresh) }

// fieldOfLocalRecord: for the term of a field of a record allocated on the spot (`thunk := &T{data: m}` … thunk.data),
// the term of the one value stored into that field; the term itself otherwise.
func fieldOfLocalRecord(t *Term) *Term {
	if t == nil || t.Op != "field" || len(t.Args) != 1 {
		return t
	}
	al, ok := t.Args[0].V.(*ssa.Alloc)
	if !ok || al.Referrers() == nil {
		return t
	}
	var val ssa.Value
	n := 0
	for _, r := range *al.Referrers() {
		fa, ok := r.(*ssa.FieldAddr)
		if !ok || fieldName(fa.X.Type(), fa.Field) != t.Name || fa.Referrers() == nil {
			continue
		}
		for _, u := range *fa.Referrers() {
			if st, ok := u.(*ssa.Store); ok && st.Addr == ssa.Value(fa) {
				n++
				val = st.Val
			}
		}
	}
	if n != 1 {
		return t
	}
	return NewTB().Of(val)
}

func init() {
	register("C17", ruleC17DoubleQuoteEscapes)
	// under PostgresEscapingDialect the rewriter decides where a double-quoted identifier of the template ends: when it
	// and the placeholder lexer disagree, the text of an argument closes the identifier (injection)
	register("C16", ruleC17DoubleQuoteEscapes)
}

// ruleC17DoubleQuoteEscapes: inside "…" the rewriter pairs escapes as the placeholder lexer and the tokenizer do.
func ruleC17DoubleQuoteEscapes(c *Ctx) {
	c.Doc("c17.dq-escapes", "quote rewriter (DoubleQuotesToBackTick), double-quote region: the byte after a backslash is examined for both `\"` and `\\\\` (an escaped backslash is a pair: its second half escapes nothing — otherwise `\"a\\\\\\\\\"` stays open, swallows the rest of the statement up to a `\"` inside an argument's literal, and that argument rewrites the statement); the byte after a `\"` is examined for a second `\"` (a doubled delimiter is a character of the identifier, as it is for the placeholder lexer)")
	f := c.P.Func(modPath, "DoubleQuotesToBackTick")
	if f == nil {
		c.Unknown("c17.dq-escapes", "DoubleQuotesToBackTick", "-", "anchor lost")
		return
	}
	c.Fn("DoubleQuotesToBackTick")
	afterBackslash, afterQuote := map[int64]bool{}, map[int64]bool{}
	// the current byte of a region that knows backslash escapes: the values that are compared with a backslash
	current := map[ssa.Value]bool{}
	deepInstrs(f, func(_ *ssa.Function, _ *TB, _ *ssa.BasicBlock, in ssa.Instruction) {
		if bo, ok := in.(*ssa.BinOp); ok && bo.Op == token.EQL {
			if k, isK := constIntOf(bo.Y); isK && k == '\\' {
				current[bo.X] = true
			}
		}
	})
	deepInstrs(f, func(_ *ssa.Function, tb *TB, b *ssa.BasicBlock, in ssa.Instruction) {
		bo, ok := in.(*ssa.BinOp)
		if !ok || (bo.Op != token.EQL && bo.Op != token.NEQ) {
			return
		}
		k, isK := constIntOf(bo.Y)
		if !isK {
			return
		}
		// the byte AFTER the current one: an element of the text at position + 1
		if xt := tb.Of(bo.X); !(xt.Op == "index" && strings.Contains(xt.Args[1].String(), "+ c:1")) {
			return
		}
		for _, fc := range relFacts(factsAt(b)) {
			if fc.r != relEQ || fc.x == bo.X || !current[fc.x] {
				continue
			}
			arm, isArm := constIntOf(fc.y)
			if !isArm {
				continue
			}
			if arm == '\\' {
				afterBackslash[k] = true
			}
			if arm == '"' {
				afterQuote[k] = true
			}
		}
	})
	var why []string
	if !afterBackslash['"'] {
		why = append(why, "after a backslash the next byte is not tested for `\"`")
	}
	if !afterBackslash['\\'] {
		why = append(why, "after a backslash the next byte is not tested for a second backslash: in `\"a\\\\\\\\\"` the closing quote is taken for an escaped one, the identifier stays open and ends at a `\"` of an argument's text")
	}
	if !afterQuote['"'] {
		why = append(why, "after a `\"` the next byte is not tested for a second `\"`: `\"x\"\"y\"` is cut into two identifiers")
	}
	c.Check(len(why) == 0, "c17.dq-escapes", "DoubleQuotesToBackTick/\"-region", c.P.Pos(f.Pos()), "\\\" and \\\\ are pairs, \"\" is a doubled delimiter", strings.Join(why, "; "))
}

func init() {
	register("C17", ruleC17CommentStates)
	register("C16", ruleC17CommentStates)
}

// ruleC17CommentStates: the option rewriters do not read quote characters inside comments.
func ruleC17CommentStates(c *Ctx) {
	c.Doc("c17.comment-states", "both option rewriters (DoubleQuotesToBackTick, FindArrayIndex — the scanner behind FixIdiomaticArray) recognise, outside quotes, the characters that start a comment for the tokenizer and the placeholder lexer (`#`, `--`, `//`, `/*`): a quote or bracket inside a comment must not open a quoted region — `SELECT /* don't */ \"a\" FROM \"t\"` left the identifiers unconverted (silently wrong rows), and a `'` in a comment of a template made the rewriter treat a sanitized argument's literal as SQL (its `[1]` became ARRAY(1), its double quotes backticks)")
	for _, name := range []string{"DoubleQuotesToBackTick", "FindArrayIndex"} {
		f := c.P.Func(modPath, name)
		if f == nil {
			c.Unknown("c17.comment-states", name, "-", "anchor lost")
			continue
		}
		c.Fn(name)
		// bytes of the text compared with constants, the scanner's helpers included
		got := map[int64]bool{}
		deepInstrs(f, func(_ *ssa.Function, tb *TB, _ *ssa.BasicBlock, in ssa.Instruction) {
			// (the starters may also be looked for as text: strings.HasPrefix(rest, "--"), strings.Index(rest, "*/"))
			if call, isCall := in.(*ssa.Call); isCall && strings.HasPrefix(calleeName(call.Common()), "strings.") && len(call.Call.Args) >= 2 {
				if t := tb.Of(call.Call.Args[1]); t.Op == "const" {
					if u, err := strconv.Unquote(t.Name); err == nil {
						for i := 0; i < len(u); i++ {
							got[int64(u[i])] = true
						}
					}
				}
			}
			bo, ok := in.(*ssa.BinOp)
			if !ok || (bo.Op != token.EQL && bo.Op != token.NEQ) {
				return
			}
			for _, pr := range [][2]ssa.Value{{bo.X, bo.Y}, {bo.Y, bo.X}} {
				if k, isK := constIntOf(pr[1]); isK {
					got[k] = true
				}
			}
		})
		var missing []string
		for _, k := range []int64{'#', '-', '/', '*'} {
			if !got[k] {
				missing = append(missing, fmt.Sprintf("%q", rune(k)))
			}
		}
		c.Check(len(missing) == 0, "c17.comment-states", name, c.P.Pos(f.Pos()), "the comment starters #, --, //, /* are recognised outside quotes", "the scanner never looks for "+strings.Join(missing, ", ")+": it has no comment state, so a quote, backtick or bracket inside a comment opens a region that swallows the SQL (or the sanitized literal) behind it")
	}
}

// sameThunk: the function value stands for the lazy entry under analysis — the very closure, or another bound value of
// the same method (go/ssa makes one `$bound` wrapper per place a method value is taken).
func sameThunk(fn ssa.Value, thunk *ssa.Function) bool {
	if fn == ssa.Value(thunk) {
		return true
	}
	f, ok := fn.(*ssa.Function)
	return ok && strings.HasSuffix(f.Name(), "$bound") && f.String() == thunk.String()
}
