package main

import (
	"fmt"
	"go/token"
	"go/types"
	"strings"

	"golang.org/x/tools/go/ssa"
)

// c04.every-key-probed — the four join executors (JoinFunc, ParallelJoinFunc, HashJoinFunc, ParallelHashJoinFunc) walk
// the driving side's catalog and hand every key to the matcher. A join returns the textbook multiset only if every key
// of the driving side is probed: a key that is skipped loses its matches and, for an outer join, its NULL-padded rows.
// Added after round 9: the goroutine-per-key loop of ParallelHashJoinFunc became GOMAXPROCS workers over
// keys[w*run:(w+1)*run] with run = len(keys)/workers — the last len(keys) % workers keys are never probed, which shows
// only when the driving side has more distinct keys than the machine has processors and the count is not a multiple.
//
// Decided on SSA: (1) the key argument of every matcher call in an executor (and the goroutine bodies it starts) is the
// key of a range over a catalog map of the driving side (the first *HashedTable parameter) — traced through closure
// parameters, captured variables and cells; a key that was first collected into a slice and is read back through an
// index or a sub-slice is not decided (the arithmetic of the partition is a value computation) and reported; (2) inside
// that range loop the call (or the go statement that makes it) lies on every path to the next round.
func init() { register("C04", ruleC04EveryKeyProbed) }

func ruleC04EveryKeyProbed(c *Ctx) {
	c.Doc("c04.every-key-probed", "join executors: the key handed to the matcher is the key of a range over a catalog map of the driving side (first parameter), traced through goroutine parameters and captured variables, and the call (or the go statement making it) is on every path from one round of that loop to the next: no key of the driving side is skipped (a key that travels through a slice and an index or sub-slice expression is reported as not decided)")
	matchers := map[string]bool{"JoinMatchFunc": true, "HashJoinMatchFunc": true}
	n := 0
	for _, name := range []string{"JoinFunc", "ParallelJoinFunc", "HashJoinFunc", "ParallelHashJoinFunc"} {
		f := c.joinMethod(name)
		key := "(*Join)." + name
		if f == nil {
			c.Unknown("c04.every-key-probed", key, "-", "anchor lost")
			continue
		}
		var driving *ssa.Parameter
		for _, p := range f.Params {
			if pt, ok := p.Type().(*types.Pointer); ok && isNamedType(pt.Elem(), modPath, "HashedTable") {
				driving = p
				break
			}
		}
		if driving == nil {
			c.Unknown("c04.every-key-probed", key, c.P.Pos(f.Pos()), "the executor has no *HashedTable parameter")
			continue
		}
		calls := 0
		// the executor, its function literals, and the module functions they start (a goroutine body moved into a method
		// or a named function), two levels deep; their call sites are where a parameter gets its value
		probeSites = map[*ssa.Function][]ssa.CallInstruction{}
		probeFns := withClosures(f)
		frontier := probeFns
		for level := 0; level < 2; level++ {
			var next []*ssa.Function
			for _, g := range frontier {
				allInstrs(g, func(_ *ssa.BasicBlock, in ssa.Instruction) {
					ci, ok := in.(ssa.CallInstruction)
					if !ok {
						return
					}
					cal := ci.Common().StaticCallee()
					if cal == nil || len(cal.Blocks) == 0 || cal.Parent() != nil || !strings.HasPrefix(funcPkgPath(cal), modPath) || matchers[cal.Name()] || cal == f {
						return
					}
					if _, seen := probeSites[cal]; !seen {
						next = append(next, withClosures(cal)...)
					}
					probeSites[cal] = append(probeSites[cal], ci)
				})
			}
			have := map[*ssa.Function]bool{}
			for _, g := range probeFns {
				have[g] = true
			}
			frontier = nil
			for _, g := range next {
				if !have[g] {
					have[g] = true
					probeFns = append(probeFns, g)
					frontier = append(frontier, g)
				}
			}
		}
		for _, g := range probeFns {
			allInstrs(g, func(b *ssa.BasicBlock, in ssa.Instruction) {
				call, ok := in.(*ssa.Call)
				if !ok {
					return
				}
				cal := call.Common().StaticCallee()
				if cal == nil || !matchers[cal.Name()] || cal.Signature.Recv() == nil || len(call.Call.Args) < 2 {
					return
				}
				calls++
				n++
				pos := c.P.Pos(call.Pos())
				construct := fmt.Sprintf("%s/%s#%d", key, cal.Name(), calls)
				rk, why := probeKeyOrigin(call.Call.Args[1], driving, 0, map[ssa.Value]bool{})
				if why != "" {
					c.Fail("c04.every-key-probed", construct, pos, "the key handed to "+cal.Name()+" is not (only) the key of a range over the driving side's catalog: "+why+" — keys that are collected first and handed out through index arithmetic can be skipped (len(keys) % workers of them in a partition by len(keys)/workers)")
					return
				}
				// (2) on every path to the next round
				if why := everyRound(rk, in, g, f); why != "" {
					c.Fail("c04.every-key-probed", construct, pos, why)
					return
				}
				c.Pass("c04.every-key-probed", construct, pos, "the key is the key of the range over the driving side's catalog, and the call is made in every round of that loop")
			})
		}
		if calls == 0 {
			c.Unknown("c04.every-key-probed", key, c.P.Pos(f.Pos()), "the executor calls no matcher")
		}
	}
	if n < 4 {
		c.Unknown("c04.every-key-probed", "inventory", "-", fmt.Sprintf("%d matcher calls found in the four executors (4 confirmed by hand)", n))
	}
}

// probeSites: the call sites (in the executor under examination and what it starts) of the module functions it starts.
var probeSites map[*ssa.Function][]ssa.CallInstruction

// probeKeyOrigin traces v back to `k` of `for k[, v] := range <driving>.<field>`; returns the Next instruction of that
// loop, or the reason the trace ended elsewhere.
func probeKeyOrigin(v ssa.Value, driving *ssa.Parameter, depth int, seen map[ssa.Value]bool) (*ssa.BasicBlock, string) {
	if depth > 12 || seen[v] {
		return nil, "the trace does not end"
	}
	seen[v] = true
	switch x := v.(type) {
	case *ssa.Extract:
		nx, ok := x.Tuple.(*ssa.Next)
		if !ok {
			return nil, "it is a component of " + x.Tuple.String()
		}
		if x.Index != 1 {
			return nil, "it is not the key component of the range"
		}
		rg, ok := nx.Iter.(*ssa.Range)
		if !ok {
			return nil, "the range is over a string"
		}
		if _, isMap := rg.X.Type().Underlying().(*types.Map); !isMap {
			return nil, "the range is not over a map"
		}
		// rg.X must be a field of the driving parameter
		src := rg.X
		if u, ok := src.(*ssa.UnOp); ok {
			src = u.X
		}
		fa, ok := src.(*ssa.FieldAddr)
		if !ok {
			return nil, "the ranged map is not a field of the catalog"
		}
		base := fa.X
		for {
			if u, ok := base.(*ssa.UnOp); ok {
				if a, ok := u.X.(*ssa.Alloc); ok { // spilled parameter
					var st ssa.Value
					for _, s := range storesTo(a) {
						st = s.Val
					}
					if st != nil {
						base = st
						continue
					}
				}
				if fv, ok := u.X.(*ssa.FreeVar); ok {
					if b := freeVarBinding(fv); b != nil {
						if a, ok := b.(*ssa.Alloc); ok {
							var st ssa.Value
							for _, s := range storesTo(a) {
								st = s.Val
							}
							if st != nil {
								base = st
								continue
							}
						}
					}
				}
			}
			break
		}
		if base != driving {
			return nil, "the ranged map does not belong to the driving side (the executor's first catalog)"
		}
		return nx.Block(), ""
	case *ssa.Parameter:
		fn := x.Parent()
		if fn.Parent() == nil {
			sites := probeSites[fn]
			if len(sites) == 0 {
				return nil, "it is a parameter of the executor"
			}
			pi := -1
			for i, p := range fn.Params {
				if p == x {
					pi = i
				}
			}
			var res *ssa.BasicBlock
			for _, site := range sites {
				if pi < 0 || pi >= len(site.Common().Args) {
					return nil, "the call that starts " + fn.Name() + " does not pass it"
				}
				hd, why := probeKeyOrigin(site.Common().Args[pi], driving, depth+1, seen)
				if why != "" {
					return nil, why
				}
				if res != nil && res != hd {
					return nil, fn.Name() + " is started from two loops"
				}
				res = hd
			}
			return res, ""
		}
		idx := -1
		for i, p := range fn.Params {
			if p == x {
				idx = i
			}
		}
		var res *ssa.BasicBlock
		found := false
		for _, b := range fn.Parent().Blocks {
			for _, in := range b.Instrs {
				var cc *ssa.CallCommon
				switch s := in.(type) {
				case *ssa.Go:
					cc = &s.Call
				case *ssa.Call:
					cc = &s.Call
				case *ssa.Defer:
					cc = &s.Call
				}
				if cc == nil {
					continue
				}
				mc, ok := cc.Value.(*ssa.MakeClosure)
				var target ssa.Value = cc.Value
				if ok {
					target = mc.Fn
				}
				if target != ssa.Value(fn) || idx >= len(cc.Args) {
					continue
				}
				found = true
				nx, why := probeKeyOrigin(cc.Args[idx], driving, depth+1, seen)
				if why != "" {
					return nil, why
				}
				if res != nil && res != nx {
					return nil, "the goroutine is started from two loops"
				}
				res = nx
			}
		}
		if !found {
			return nil, "the function literal that receives it is not called on the spot"
		}
		return res, ""
	case *ssa.UnOp:
		if a, ok := x.X.(*ssa.Alloc); ok {
			return probeCell(a, driving, depth, seen)
		}
		if fv, ok := x.X.(*ssa.FreeVar); ok {
			if b := freeVarBinding(fv); b != nil {
				if a, ok := b.(*ssa.Alloc); ok {
					return probeCell(a, driving, depth, seen)
				}
			}
			return nil, "it is a captured variable that cannot be resolved"
		}
		if ia, ok := x.X.(*ssa.IndexAddr); ok {
			// `for _, k := range keys` over a slice that holds every key of the catalog
			head, why := fullRangeIndex(ia)
			if why != "" {
				return nil, "it is read back from a slice through an index that is not the index of a range over the whole slice (" + why + ")"
			}
			if why := holdsEveryKey(ia.X, driving, depth+1, map[ssa.Value]bool{}); why != "" {
				return nil, "it is read back from a slice that is not known to hold every key of the driving side: " + why
			}
			return head, ""
		}
		return nil, "it is loaded from " + x.X.String()
	case *ssa.FreeVar:
		if b := freeVarBinding(x); b != nil {
			return probeKeyOrigin(b, driving, depth+1, seen)
		}
		return nil, "it is a captured variable that cannot be resolved"
	case *ssa.Phi:
		var res *ssa.BasicBlock
		for _, e := range x.Edges {
			nx, why := probeKeyOrigin(e, driving, depth+1, seen)
			if why != "" {
				return nil, why
			}
			if res != nil && res != nx {
				return nil, "it comes from two loops"
			}
			res = nx
		}
		return res, ""
	case *ssa.Index, *ssa.Lookup, *ssa.Slice:
		return nil, "it is read back from a collection through an index or sub-slice (the keys were collected first)"
	}
	s := v.String()
	if strings.Contains(s, "range") || strings.Contains(s, "next") {
		return nil, "it is " + s
	}
	return nil, fmt.Sprintf("it is computed (%T)", v)
}

func probeCell(a *ssa.Alloc, driving *ssa.Parameter, depth int, seen map[ssa.Value]bool) (*ssa.BasicBlock, string) {
	var res *ssa.BasicBlock
	st := storesTo(a)
	if len(st) == 0 {
		return nil, "it is a variable that is never assigned"
	}
	for _, s := range st {
		nx, why := probeKeyOrigin(s.Val, driving, depth+1, seen)
		if why != "" {
			return nil, why
		}
		if res != nil && res != nx {
			return nil, "it comes from two loops"
		}
		res = nx
	}
	return res, ""
}

// freeVarBinding: the value bound to fv where its function literal is created (nil when not found).
func freeVarBinding(fv *ssa.FreeVar) ssa.Value {
	fn := fv.Parent()
	if fn.Parent() == nil {
		return nil
	}
	idx := -1
	for i, x := range fn.FreeVars {
		if x == fv {
			idx = i
		}
	}
	for _, b := range fn.Parent().Blocks {
		for _, in := range b.Instrs {
			if mc, ok := in.(*ssa.MakeClosure); ok && mc.Fn == ssa.Value(fn) && idx >= 0 && idx < len(mc.Bindings) {
				return mc.Bindings[idx]
			}
		}
	}
	return nil
}

// everyRound: the instruction `in` of function g (the executor f itself or a function literal it starts per round) is
// executed in every round of the range loop whose iterator step is nx: in f, the block of `in` (or of the statement that
// starts g) dominates every predecessor of the loop head inside the loop; in g, it dominates every return.
func everyRound(head *ssa.BasicBlock, in ssa.Instruction, g, f *ssa.Function) string {
	if head == nil {
		return "the loop of the key was not found"
	}
	at := in
	if g != f {
		// inside the literal: every normal return is dominated by the call
		for _, b := range g.Blocks {
			if len(b.Instrs) == 0 {
				continue
			}
			if _, isRet := b.Instrs[len(b.Instrs)-1].(*ssa.Return); isRet && b != g.Recover && !in.Block().Dominates(b) {
				return "the function literal that makes the call can return without making it: a key of the driving side can be skipped"
			}
		}
		// the statement of f (nx's function) that starts g
		at = nil
		h := g
		for h.Parent() != nil && h.Parent() != head.Parent() {
			h = h.Parent()
		}
		if h.Parent() == nil && len(probeSites[h]) == 0 {
			return "the function literal is not created in the function that holds the loop"
		}
		for _, b := range head.Parent().Blocks {
			for _, i2 := range b.Instrs {
				var cv ssa.Value
				switch s := i2.(type) {
				case *ssa.Go:
					cv = s.Call.Value
				case *ssa.Call:
					cv = s.Call.Value
				}
				if mc, ok := cv.(*ssa.MakeClosure); ok && mc.Fn == ssa.Value(h) {
					at = i2
				}
				if ci, ok := i2.(ssa.CallInstruction); ok && ci.Common().StaticCallee() == h {
					at = i2
				}
			}
		}
		if at == nil {
			return "the function literal that makes the call is not started inside the loop of the key"
		}
	} else if in.Parent() != head.Parent() {
		return "the call is not in the function that holds the loop"
	}
	ab := at.Block()
	if !head.Dominates(ab) {
		return "the call is not inside the loop of the key"
	}
	for _, p := range head.Preds {
		if head.Dominates(p) && !ab.Dominates(p) { // a back edge
			return "a path from one round of the loop over the driving side's keys to the next does not make the call: a key can be skipped"
		}
	}
	return ""
}

// fullRangeIndex: ia.Index is the index of go/ssa's lowering of `for i[, x] := range s` over the indexed slice itself
// (phi[-1, i+1] with i+1 < len(s) as the loop test); returns the loop head.
func fullRangeIndex(ia *ssa.IndexAddr) (*ssa.BasicBlock, string) {
	add, ok := ia.Index.(*ssa.BinOp)
	if !ok || add.Op != token.ADD {
		return nil, "the index is not a range index"
	}
	one, isC := constIntOf(add.Y)
	phi, isPhi := add.X.(*ssa.Phi)
	if !isC || one != 1 || !isPhi || len(phi.Edges) < 2 {
		return nil, "the index is not a range index"
	}
	// one edge enters with -1, every other edge (the end of the body, each `continue`) carries the stepped index
	starts := 0
	for _, e := range phi.Edges {
		if e == ssa.Value(add) {
			continue
		}
		if k, isK := constIntOf(e); isK && k == -1 {
			starts++
			continue
		}
		return nil, "the index does not start at the first element and step by one"
	}
	if starts != 1 {
		return nil, "the index does not start at the first element and step by one"
	}
	// the loop test: add < len(slice)
	head := phi.Block()
	iff, ok := head.Instrs[len(head.Instrs)-1].(*ssa.If)
	if !ok {
		return nil, "the loop has no test"
	}
	cond, ok := iff.Cond.(*ssa.BinOp)
	if !ok || cond.Op != token.LSS || cond.X != ssa.Value(add) || !isLenOf(cond.Y, ia.X) {
		return nil, "the loop does not run to the length of the slice"
	}
	return head, ""
}

// holdsEveryKey: the slice value s was built by appending, in every round of a range over a catalog map of the driving
// side, the key of that round (or is slices.Collect / slices.Sorted of maps.Keys of such a map).
func holdsEveryKey(s ssa.Value, driving *ssa.Parameter, depth int, seen map[ssa.Value]bool) string {
	if depth > 14 {
		return "the trace does not end"
	}
	if seen[s] {
		return ""
	}
	seen[s] = true
	appends := 0
	// base: v is what an append starts from (an emptied buffer `buf[:0]` is fine there; anywhere else a sub-slice loses keys)
	var walk func(v ssa.Value, d int, base bool) string
	walk = func(v ssa.Value, d int, base bool) string {
		if d > 14 {
			return "the trace does not end"
		}
		if seen[v] && v != s {
			return ""
		}
		seen[v] = true
		switch x := v.(type) {
		case *ssa.Const, *ssa.MakeSlice:
			return ""
		case *ssa.Slice:
			if x.Low == nil && x.High == nil {
				return walk(x.X, d+1, base)
			}
			if hi, ok := constIntOf(x.High); base && x.Low == nil && ok && hi == 0 {
				return ""
			}
			return "a sub-slice of the collected keys is taken at " + x.Parent().Prog.Fset.Position(x.Pos()).String() + ": the keys outside it are never probed"
		case *ssa.Alloc:
			return "" // make([]T, 0, n) as an array allocation
		case *ssa.Phi:
			for _, e := range x.Edges {
				if why := walk(e, d+1, base); why != "" {
					return why
				}
			}
			return ""
		case *ssa.UnOp:
			if a, ok := x.X.(*ssa.Alloc); ok {
				for _, st := range storesTo(a) {
					if why := walk(st.Val, d+1, base); why != "" {
						return why
					}
				}
				return ""
			}
			return "it is loaded from " + x.X.String()
		case *ssa.Call:
			if b, ok := x.Call.Value.(*ssa.Builtin); ok && b.Name() == "append" && len(x.Call.Args) == 2 {
				if why := walk(x.Call.Args[0], d+1, true); why != "" {
					return why
				}
				// the appended element: the store into the variadic array
				sl, ok := x.Call.Args[1].(*ssa.Slice)
				if !ok {
					return "a whole slice is appended"
				}
				arr, ok := sl.X.(*ssa.Alloc)
				if !ok || arr.Referrers() == nil {
					return "a whole slice is appended"
				}
				for _, r := range *arr.Referrers() {
					ia, ok := r.(*ssa.IndexAddr)
					if !ok || ia.Referrers() == nil {
						continue
					}
					for _, r2 := range *ia.Referrers() {
						st, ok := r2.(*ssa.Store)
						if !ok {
							continue
						}
						head, why := probeKeyOrigin(st.Val, driving, depth+1, map[ssa.Value]bool{})
						if why != "" {
							return "an appended element is not a key of the catalog (" + why + ")"
						}
						if why := everyRound(head, x, x.Parent(), x.Parent()); why != "" {
							return "the append is not made in every round of the loop over the catalog"
						}
						appends++
					}
				}
				return ""
			}
			if cal := x.Call.StaticCallee(); cal != nil && cal.Pkg != nil && cal.Pkg.Pkg.Path() == "slices" && (strings.HasPrefix(cal.Name(), "Collect") || strings.HasPrefix(cal.Name(), "Sorted")) && len(x.Call.Args) == 1 {
				if inner, ok := x.Call.Args[0].(*ssa.Call); ok {
					if ic := inner.Call.StaticCallee(); ic != nil && ic.Pkg != nil && ic.Pkg.Pkg.Path() == "maps" && strings.HasPrefix(ic.Name(), "Keys") && len(inner.Call.Args) == 1 {
						m := inner.Call.Args[0]
						if u, ok := m.(*ssa.UnOp); ok {
							if fa, ok := u.X.(*ssa.FieldAddr); ok && fa.X == ssa.Value(driving) {
								appends++
								return ""
							}
						}
						return "maps.Keys is not taken of a catalog map of the driving side"
					}
				}
			}
			return "it is the result of " + x.Call.Value.String()
		}
		return fmt.Sprintf("it is computed (%T)", v)
	}
	if why := walk(s, 0, false); why != "" {
		return why
	}
	if appends == 0 {
		return "nothing is appended to it"
	}
	return ""
}
