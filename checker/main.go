package main

import (
	"flag"
	"fmt"
	"os"
	"sort"
	"strconv"
	"strings"
	"time"
)

// property id -> rule functions
var registry = map[string][]func(*Ctx){}

func register(prop string, fns ...func(*Ctx)) { registry[prop] = append(registry[prop], fns...) }

func main() {
	repo := flag.String("repo", "/repo", "path of the genql working tree to analyse")
	verif := flag.String("verif", "/verif", "verification directory (evidence, known_findings.json)")
	prop := flag.String("property", "", "property id (C01..C20), or 'all'")
	tier := flag.String("tier", "", "quick|thorough (default: $VERIF_TIER or quick)")
	only := flag.String("only", "", "restrict the verdict to one obligation key (replay)")
	replay := flag.String("replay", "", "replay file written by an earlier run")
	dump := flag.String("dump", "", "debug: dump abstract paths of the named genql function")
	noEvidence := flag.Bool("no-evidence", false, "do not write evidence (used by the mutation self-test)")
	flag.Parse()
	if *tier == "" {
		*tier = os.Getenv("VERIF_TIER")
	}
	if *tier != "thorough" {
		*tier = "quick"
	}
	seed, _ := strconv.Atoi(os.Getenv("VERIF_SEED"))
	if *replay != "" {
		p, o, err := readReplay(*replay)
		if err != nil {
			fmt.Println("ERROR", err)
			os.Exit(2)
		}
		*prop, *only = p, o
	}
	start := time.Now()
	prog, err := Load(*repo, true)
	if err != nil {
		fmt.Printf("ERROR load: %v\n", err)
		os.Exit(2)
	}
	if len(prog.Pkgs) < 3 {
		fmt.Printf("ERROR load: expected the 3 module packages, got %d\n", len(prog.Pkgs))
		os.Exit(2)
	}
	if *dump != "" {
		dumpPaths(prog, *dump)
		return
	}
	props := []string{*prop}
	if *prop == "all" {
		props = props[:0]
		for k := range registry {
			props = append(props, k)
		}
		sort.Strings(props)
	}
	exit := 0
	for _, id := range props {
		rules, ok := registry[id]
		if !ok {
			fmt.Printf("ERROR unknown property %q\n", id)
			os.Exit(2)
		}
		t0 := start
		if *prop == "all" {
			t0 = time.Now()
		}
		c := &Ctx{P: prog, Property: id, Tier: *tier}
		func() {
			defer func() {
				if r := recover(); r != nil {
					c.Unknown("checker.panic", id, "-", fmt.Sprint(r))
					fmt.Printf("CHECKER PANIC in %s: %v\n", id, r)
				}
			}()
			for _, r := range rules {
				r(c)
			}
			ruleSizeThresholds(c)
		}()
		if *only != "" {
			var keep []*Obligation
			for _, o := range c.Obs {
				if o.Key() == *only {
					keep = append(keep, o)
				}
			}
			c.Obs = keep
		}
		extra := map[string]interface{}{"packages": len(prog.Pkgs), "module_functions": len(prog.ModFuncs)}
		if *tier == "thorough" {
			thoroughExtras(c, extra)
		}
		var e int
		if *noEvidence {
			e = c.finishNoEvidence()
		} else {
			e = c.finish(t0, *verif, seed, extra)
		}
		if e > exit {
			exit = e
		}
	}
	os.Exit(exit)
}

func (c *Ctx) finishNoEvidence() int {
	exit := 0
	kf, _ := loadKnown("/verif/known_findings.json")
	sort.SliceStable(c.Obs, func(i, j int) bool { return c.Obs[i].Key() < c.Obs[j].Key() })
	for _, o := range c.Obs {
		if o.Status == Discharged {
			continue
		}
		known := false
		if kf != nil && o.Status == Violated {
			for _, k := range kf.Known {
				if k.Property == c.Property && k.Rule == o.Rule && k.Construct == o.Construct {
					known = true
				}
			}
		}
		if known {
			continue
		}
		fmt.Printf("%s %s @ %s  %s  %s\n", o.Status, o.Rule, o.Construct, o.Pos, o.Detail)
		fmt.Printf("VIOLATION property=%s replay=-\n", c.Property)
		exit = 1
	}
	return exit
}

func readReplay(path string) (string, string, error) {
	b, err := os.ReadFile(path)
	if err != nil {
		return "", "", err
	}
	s := string(b)
	get := func(k string) string {
		i := strings.Index(s, `"`+k+`": "`)
		if i < 0 {
			return ""
		}
		r := s[i+len(k)+5:]
		return r[:strings.Index(r, `"`)]
	}
	return get("property"), get("rule") + " @ " + get("construct"), nil
}

func dumpPaths(p *Program, name string) {
	fn := p.Func(modPath, name)
	if fn == nil {
		fmt.Println("no such function")
		return
	}
	paths, err := WalkFunc(fn, WalkCfg{})
	fmt.Println("paths:", len(paths), "err:", err)
	for _, pa := range paths {
		fmt.Println(pa.String())
		for _, e := range pa.Effects {
			as := []string{}
			for _, a := range e.Args {
				as = append(as, a.String())
			}
			fmt.Printf("    %s %s %s\n", e.Kind, e.Callee, strings.Join(as, " ; "))
		}
	}
}
