package main

import (
	"flag"
	"fmt"
	"go/token"
	"go/types"
	"os"
	"reflect"
	"sort"
	"strconv"
	"strings"
	"time"

	"golang.org/x/tools/go/ssa"
)

// property id -> rule functions
var registry = map[string][]func(*Ctx){}

// register adds rules to a property's rule set; a rule that is already there is not added twice (several init functions
// may name the same rule for the same property).
// lateRegistry: rules that run after every other rule of the property (they read c.Functions).
var lateRegistry = map[string][]func(*Ctx){}

func registerLate(prop string, fns ...func(*Ctx)) {
	if _, ok := registry[prop]; !ok {
		registry[prop] = nil
	}
	lateRegistry[prop] = append(lateRegistry[prop], fns...)
}

func register(prop string, fns ...func(*Ctx)) {
	for _, fn := range fns {
		dup := false
		for _, have := range registry[prop] {
			if reflect.ValueOf(have).Pointer() == reflect.ValueOf(fn).Pointer() {
				dup = true
			}
		}
		if !dup {
			registry[prop] = append(registry[prop], fn)
		}
	}
}

func main() {
	repo := flag.String("repo", "/repo", "path of the genql working tree to analyse")
	verif := flag.String("verif", "/verif", "verification directory (evidence, known_findings.json)")
	prop := flag.String("property", "", "property id (C01..C20), or 'all'")
	tier := flag.String("tier", "", "quick|thorough (default: $VERIF_TIER or quick)")
	only := flag.String("only", "", "restrict the verdict to one obligation key (replay)")
	replay := flag.String("replay", "", "replay file written by an earlier run")
	dump := flag.String("dump", "", "debug: dump abstract paths of the named genql function")
	listF := flag.Bool("list-funcs", false, "print known_funcs.go for the analysed tree")
	noEvidence := flag.Bool("no-evidence", false, "do not write evidence (used by the mutation self-test)")
	flag.Parse()
	if *tier == "" {
		*tier = os.Getenv("VERIF_TIER")
	}
	if *tier != "thorough" {
		*tier = "quick"
	}
	seed, _ := strconv.Atoi(os.Getenv("VERIF_SEED"))
	if *replay != "" {
		p, o, err := readReplay(*replay)
		if err != nil {
			fmt.Println("ERROR", err)
			os.Exit(2)
		}
		*prop, *only = p, o
	}
	start := time.Now()
	prog, err := Load(*repo, true)
	if err != nil {
		fmt.Printf("ERROR load: %v\n", err)
		os.Exit(2)
	}
	if len(prog.Pkgs) < 3 {
		fmt.Printf("ERROR load: expected the 3 module packages, got %d\n", len(prog.Pkgs))
		os.Exit(2)
	}
	if *dump != "" {
		dumpPaths(prog, *dump)
		return
	}
	if *listF {
		listFuncs(prog)
		return
	}
	props := []string{*prop}
	if *prop == "all" {
		props = props[:0]
		for k := range registry {
			props = append(props, k)
		}
		sort.Strings(props)
	}
	exit := 0
	for _, id := range props {
		rules, ok := registry[id]
		if !ok {
			fmt.Printf("ERROR unknown property %q\n", id)
			os.Exit(2)
		}
		t0 := start
		if *prop == "all" {
			t0 = time.Now()
		}
		c := &Ctx{P: prog, Property: id, Tier: *tier}
		func() {
			defer func() {
				if r := recover(); r != nil {
					c.Unknown("checker.panic", id, "-", fmt.Sprint(r))
					fmt.Printf("CHECKER PANIC in %s: %v\n", id, r)
				}
			}()
			for _, r := range rules {
				r(c)
			}
			// the Go-language rules run over the call-graph cone of the functions the other rules analysed: after them
			for _, r := range lateRegistry[id] {
				r(c)
			}
			ruleSizeThresholds(c)
		}()
		if *only != "" {
			var keep []*Obligation
			for _, o := range c.Obs {
				if o.Key() == *only {
					keep = append(keep, o)
				}
			}
			c.Obs = keep
		}
		extra := map[string]interface{}{"packages": len(prog.Pkgs), "module_functions": len(prog.ModFuncs)}
		if *tier == "thorough" {
			thoroughExtras(c, extra)
		}
		var e int
		if *noEvidence {
			e = c.finishNoEvidence()
		} else {
			e = c.finish(t0, *verif, seed, extra)
		}
		if e > exit {
			exit = e
		}
	}
	os.Exit(exit)
}

func (c *Ctx) finishNoEvidence() int {
	exit := 0
	kf, _ := loadKnown("/verif/known_findings.json")
	sort.SliceStable(c.Obs, func(i, j int) bool { return c.Obs[i].Key() < c.Obs[j].Key() })
	for _, o := range c.Obs {
		if o.Status == Discharged {
			if pfx := os.Getenv("GENQL_LIST"); pfx != "" && strings.HasPrefix(o.Rule, pfx) {
				fmt.Printf("discharged %s @ %s  %s  %s\n", o.Rule, o.Construct, o.Pos, o.Detail) // debug listing
			}
			continue
		}
		known := false
		if kf != nil && o.Status == Violated {
			for _, k := range kf.Known {
				if k.Property == c.Property && k.Rule == o.Rule && k.Construct == o.Construct {
					known = true
				}
			}
		}
		if known {
			continue
		}
		fmt.Printf("%s %s @ %s  %s  %s\n", o.Status, o.Rule, o.Construct, o.Pos, o.Detail)
		fmt.Printf("VIOLATION property=%s replay=-\n", c.Property)
		exit = 1
	}
	return exit
}

func readReplay(path string) (string, string, error) {
	b, err := os.ReadFile(path)
	if err != nil {
		return "", "", err
	}
	s := string(b)
	get := func(k string) string {
		i := strings.Index(s, `"`+k+`": "`)
		if i < 0 {
			return ""
		}
		r := s[i+len(k)+5:]
		return r[:strings.Index(r, `"`)]
	}
	return get("property"), get("rule") + " @ " + get("construct"), nil
}

func dumpPaths(p *Program, name string) {
	fn := p.Func(modPath, name)
	if fn == nil {
		fmt.Println("no such function")
		return
	}
	paths, err := WalkFunc(fn, WalkCfg{})
	fmt.Println("paths:", len(paths), "err:", err)
	for _, pa := range paths {
		fmt.Println(pa.String())
		for _, e := range pa.Effects {
			as := []string{}
			for _, a := range e.Args {
				as = append(as, a.String())
			}
			fmt.Printf("    %s %s %s\n", e.Kind, e.Callee, strings.Join(as, " ; "))
		}
	}
}

// listFuncs prints the names the rule tables know (regenerate known_funcs.go with it after a change of /repo's HEAD
// that adds or renames functions on purpose).
func listFuncs(p *Program) {
	seen := map[string]bool{}
	var names []string
	for _, f := range p.ModFuncs {
		if f.Parent() != nil {
			continue
		}
		k := knownKey(f)
		if !seen[k] {
			seen[k] = true
			names = append(names, k)
		}
	}
	sort.Strings(names)
	fmt.Println("package main\n\n// Code generated by `genqlcheck -list-funcs`; the module functions the rule tables were written against.\n// A function that is not listed is a helper the rules do not know: the path walker inlines it.\nvar knownFuncs = map[string]bool{")
	for _, n := range names {
		fmt.Printf("\t%q: true,\n", n)
	}
	fmt.Println("}")
	// where each unexported function lives and what it takes and returns: lets a later tree that renamed one be matched
	fmt.Println("\n// knownSigs: package, receiver and signature of the unexported functions above (resolveRenames).\nvar knownSigs = map[string]string{")
	sigs := map[string]string{}
	for _, f := range p.ModFuncs {
		if f.Parent() != nil || f.Origin() != nil || f.Synthetic != "" {
			continue
		}
		if !token.IsExported(f.Name()) {
			sigs[funcNameRaw(f)] = sigKey(f)
		}
	}
	var sn []string
	for n := range sigs {
		sn = append(sn, n)
	}
	sort.Strings(sn)
	for _, n := range sn {
		fmt.Printf("\t%q: %q,\n", n, sigs[n])
	}
	fmt.Println("}")
	// the fields of the module's struct types and their types: lets a later tree that renamed a field be matched
	fmt.Println("\n// knownFields: the fields of the module's struct types (resolveFieldRenames).\nvar knownFields = map[string]string{")
	var fl []string
	fields := map[string]string{}
	for _, pk := range p.Pkgs {
		scope := pk.Types.Scope()
		for _, tn := range scope.Names() {
			obj, ok := scope.Lookup(tn).(*types.TypeName)
			if !ok {
				continue
			}
			if st, ok := obj.Type().Underlying().(*types.Struct); ok {
				for i := 0; i < st.NumFields(); i++ {
					k := tn + "." + st.Field(i).Name()
					fields[k] = st.Field(i).Type().String()
					fl = append(fl, k)
				}
			}
		}
	}
	sort.Strings(fl)
	for _, k := range fl {
		fmt.Printf("\t%q: %q,\n", k, fields[k])
	}
	fmt.Println("}")
	fmt.Println("\n// knownGlobals: the package-level variables of the module (resolveGlobalRenames).\nvar knownGlobals = map[string]string{")
	var gl []string
	globals := map[string]string{}
	for _, pk := range p.Pkgs {
		if sp := p.SSAPkgs[pk.PkgPath]; sp != nil {
			for name, m := range sp.Members {
				if g, ok := m.(*ssa.Global); ok && !strings.HasPrefix(name, "init$") {
					globals[pk.PkgPath+"."+name] = g.Type().String()
					gl = append(gl, pk.PkgPath+"."+name)
				}
			}
		}
	}
	sort.Strings(gl)
	for _, k := range gl {
		fmt.Printf("\t%q: %q,\n", k, globals[k])
	}
	fmt.Println("}")
}
