package main

import (
	"go/token"

	"golang.org/x/tools/go/ssa"
)

// A small difference-bound prover for index arithmetic that hand-written scanners do with two loop-carried variables
// (`start` and `i` in a splitter: selector[start:i], then i++, start = i+1). Values are normalised to base + offset;
// a claim x <= y is proven from equal bases, from the branch facts of the edge, or by induction over the phi nodes
// (each incoming edge proven under the claim itself). Nothing is executed and no solver is involved: the domain is
// the set of inequalities "a <= b + d" between SSA values with a constant d.

type lenKey struct{ of ssa.Value }

type lin struct {
	base any // nil (a constant), lenKey, or an ssa.Value
	off  int64
}

func linOf(v ssa.Value) lin {
	var off int64
	for i := 0; i < 8; i++ {
		if k, ok := constIntOf(v); ok {
			return lin{nil, off + k}
		}
		if b, ok := v.(*ssa.BinOp); ok {
			if k, isK := constIntOf(b.Y); isK && (b.Op == token.ADD || b.Op == token.SUB) {
				if b.Op == token.ADD {
					off += k
				} else {
					off -= k
				}
				v = b.X
				continue
			}
			if k, isK := constIntOf(b.X); isK && b.Op == token.ADD {
				off += k
				v = b.Y
				continue
			}
		}
		break
	}
	if call, ok := v.(*ssa.Call); ok {
		if bi, isB := call.Call.Value.(*ssa.Builtin); isB && bi.Name() == "len" && len(call.Call.Args) == 1 {
			return lin{lenKey{call.Call.Args[0]}, off}
		}
	}
	return lin{v, off}
}

// leHyp: a <= b + d, assumed while the edges of the phi nodes involved are being proven.
type leHyp struct {
	a, b any
	d    int64
}

// proveLE: x <= y whenever the facts fs hold.
func proveLE(x, y ssa.Value, fs []fact) bool {
	return proveLin(linOf(x), linOf(y), fs, nil, 0)
}

// proveLELenLin: x <= len(of).
func proveLELenLin(x ssa.Value, of ssa.Value, fs []fact) bool {
	return proveLin(linOf(x), lin{lenKey{of}, 0}, fs, nil, 0)
}

func proveLin(x, y lin, fs []fact, hyp []leHyp, depth int) bool {
	if depth > 10 {
		return false
	}
	// x.base + x.off <= y.base + y.off
	if x.base == y.base {
		return x.off <= y.off
	}
	if x.base == nil {
		// a constant on the left: enough that the right-hand base is non-negative
		switch yb := y.base.(type) {
		case lenKey:
			if x.off <= y.off {
				return true
			}
		case ssa.Value:
			if x.off <= y.off && proveGE0(yb, fs, 0) {
				return true
			}
		}
	}
	for _, h := range hyp {
		if h.a == x.base && h.b == y.base && h.d+x.off <= y.off {
			return true
		}
	}
	for _, f := range relFacts(fs) {
		var slack int64
		switch f.r {
		case relLT:
			slack = -1
		case relLE, relEQ:
			slack = 0
		default:
			continue
		}
		lx, ly := linOf(f.x), linOf(f.y)
		// lx.base + lx.off <= ly.base + ly.off + slack
		if lx.base == x.base && ly.base == y.base && x.off+(ly.off-lx.off+slack) <= y.off {
			return true
		}
	}
	px, _ := x.base.(*ssa.Phi)
	py, _ := y.base.(*ssa.Phi)
	claim := append(append([]leHyp{}, hyp...), leHyp{x.base, y.base, y.off - x.off})
	add := func(l lin, d int64) lin { return lin{l.base, l.off + d} }
	switch {
	case px != nil && py != nil && px.Block() == py.Block():
		// both merge at the same point: edge by edge
		for k := range px.Edges {
			efs := factsOnEdge(px.Block().Preds[k], px.Block())
			if !proveLin(add(linOf(px.Edges[k]), x.off), add(linOf(py.Edges[k]), y.off), efs, claim, depth+1) {
				return false
			}
		}
		return true
	case px != nil:
		for k := range px.Edges {
			efs := factsOnEdge(px.Block().Preds[k], px.Block())
			if !proveLin(add(linOf(px.Edges[k]), x.off), y, efs, claim, depth+1) {
				return false
			}
		}
		return true
	case py != nil:
		for k := range py.Edges {
			efs := factsOnEdge(py.Block().Preds[k], py.Block())
			if !proveLin(x, add(linOf(py.Edges[k]), y.off), efs, claim, depth+1) {
				return false
			}
		}
		return true
	}
	return false
}
