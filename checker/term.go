package main

import (
	"fmt"
	"go/constant"
	"go/token"
	"go/types"
	"sort"
	"strings"

	"golang.org/x/tools/go/ssa"
)

// Term is a symbolic description of how an SSA value is computed (value-origin tracing,
// engine E-origin). Terms are structural: two syntactically different computations of the
// same shape get the same canonical string, register names never appear.
type Term struct {
	Op   string // const param freevar global fn field load call ext bin un conv assert assertok phi alloc index lookup lookupok slice make closure next varargs unknown
	Name string
	Args []*Term
	V    ssa.Value
	Typ  types.Type
	str  string
	env  *TB // closure terms: the builder of the creating function (resolves the captured variables)
}

func (t *Term) String() string {
	if t == nil {
		return "<nil>"
	}
	if t.str != "" {
		return t.str
	}
	var s string
	as := func() string {
		xs := make([]string, len(t.Args))
		for i, a := range t.Args {
			xs[i] = a.String()
		}
		return strings.Join(xs, ", ")
	}
	switch t.Op {
	case "const":
		s = "c:" + t.Name
	case "param":
		s = "p:" + t.Name
	case "freevar":
		s = "fv:" + t.Name
	case "global":
		s = "g:" + t.Name
	case "fn":
		s = "fn:" + t.Name
	case "field":
		s = "(" + t.Args[0].String() + ")." + t.Name
	case "load":
		s = "*" + t.Args[0].String()
	case "call":
		s = t.Name + "(" + as() + ")"
	case "ext":
		s = t.Args[0].String() + "#" + t.Name
	case "bin":
		s = "(" + t.Args[0].String() + " " + t.Name + " " + t.Args[1].String() + ")"
	case "un":
		s = t.Name + t.Args[0].String()
	case "conv":
		s = "conv[" + t.Name + "](" + t.Args[0].String() + ")"
	case "assert", "assertok":
		s = t.Op + "[" + t.Name + "](" + t.Args[0].String() + ")"
	case "phi":
		xs := make([]string, len(t.Args))
		for i, a := range t.Args {
			xs[i] = a.String()
		}
		sort.Strings(xs)
		s = "phi{" + strings.Join(xs, " | ") + "}"
	case "index":
		s = t.Args[0].String() + "[" + t.Args[1].String() + "]"
	case "lookup", "lookupok":
		s = t.Op + ":" + t.Args[0].String() + "[" + t.Args[1].String() + "]"
	case "slice":
		s = "slice:" + t.Args[0].String() + "[" + as() + "]"
	case "varargs":
		s = "[" + as() + "]"
	default:
		s = t.Op + ":" + t.Name
		if len(t.Args) > 0 {
			s += "(" + as() + ")"
		}
	}
	t.str = s
	return s
}

// Walk visits t and all sub-terms.
func (t *Term) Walk(f func(*Term) bool) {
	if t == nil || !f(t) {
		return
	}
	for _, a := range t.Args {
		a.Walk(f)
	}
}

// Contains reports whether some sub-term satisfies pred.
func (t *Term) Contains(pred func(*Term) bool) bool {
	found := false
	t.Walk(func(x *Term) bool {
		if found {
			return false
		}
		if pred(x) {
			found = true
			return false
		}
		return true
	})
	return found
}

// HasField reports whether the term reads field `name` (of anything).
func (t *Term) HasField(name string) bool {
	return t.Contains(func(x *Term) bool { return x.Op == "field" && x.Name == name })
}

// HasCall reports whether the term contains a call whose callee name has the given suffix.
func (t *Term) HasCall(suffix string) bool {
	return t.Contains(func(x *Term) bool { return x.Op == "call" && strings.HasSuffix(x.Name, suffix) })
}

// FindCalls returns every call sub-term whose callee name has the suffix.
func (t *Term) FindCalls(suffix string) []*Term {
	var out []*Term
	t.Walk(func(x *Term) bool {
		if x.Op == "call" && strings.HasSuffix(x.Name, suffix) {
			out = append(out, x)
		}
		return true
	})
	return out
}

func constTerm(c *ssa.Const) *Term {
	name := "nil"
	if c.Value != nil {
		name = c.Value.ExactString()
	} else if !isNillable(c.Type()) {
		name = "zero"
	}
	return &Term{Op: "const", Name: name, V: c, Typ: c.Type()}
}

func isNillable(t types.Type) bool {
	switch t.Underlying().(type) {
	case *types.Pointer, *types.Slice, *types.Map, *types.Chan, *types.Signature, *types.Interface:
		return true
	case *types.Basic:
		return t.Underlying().(*types.Basic).Kind() == types.UnsafePointer || t.Underlying().(*types.Basic).Kind() == types.UntypedNil
	}
	return false
}

func shortType(t types.Type) string {
	if t == nil {
		return "?"
	}
	return types.TypeString(t, func(p *types.Package) string {
		if p.Path() == modPath {
			return ""
		}
		if strings.HasPrefix(p.Path(), sqlparserPfx) {
			return "sqlparser"
		}
		return p.Name()
	})
}

func calleeName(c *ssa.CallCommon) string {
	if c.IsInvoke() {
		return "inv:" + c.Method.Name()
	}
	switch f := c.Value.(type) {
	case *ssa.Function:
		return funcName(f)
	case *ssa.Builtin:
		return "builtin:" + f.Name()
	case *ssa.MakeClosure:
		return "closure:" + funcName(f.Fn.(*ssa.Function))
	}
	return "dyn"
}

// funcName is the package-qualified, instance-free name used in terms.
func funcName(f *ssa.Function) string {
	if a, ok := funcAlias[f]; ok {
		return a
	}
	if par := f.Parent(); par != nil {
		// a closure of a renamed function: Parent$n under the name the rules know
		top := par
		for top.Parent() != nil {
			top = top.Parent()
		}
		if a, ok := funcAlias[top]; ok {
			return a + strings.TrimPrefix(funcNameRaw(f), funcNameRaw(top))
		}
	}
	return funcNameRaw(f)
}

// fnShort: the bare name of a function as the rules know it (the pinned tree's name for a renamed one).
func fnShort(f *ssa.Function) string {
	if f == nil {
		return ""
	}
	if a, ok := funcAlias[f]; ok {
		return a[strings.LastIndex(a, ".")+1:]
	}
	return f.Name()
}

func funcNameRaw(f *ssa.Function) string {
	s := f.String()
	s = strings.ReplaceAll(s, modPath+"/", "")
	s = strings.ReplaceAll(s, modPath+".", "")
	s = strings.ReplaceAll(s, sqlparserPfx, "sqlparser")
	return s
}

// TB builds flow-insensitive terms for SSA values of one function (memoised).
type TB struct {
	memo   map[ssa.Value]*Term
	inprog map[ssa.Value]bool
	depth  int
	bind   map[*ssa.Parameter]*Term // parameters of an unknown helper bound to the caller's argument terms (deepInstrs)
	fvbind map[*ssa.FreeVar]*Term   // captured variables of an inlined closure
	stack  []*ssa.Function          // helpers being inlined (outermost first)
}

func NewTB() *TB { return &TB{memo: map[ssa.Value]*Term{}, inprog: map[ssa.Value]bool{}} }

// Of returns the flow-insensitive term of v: loads from local cells are the union (phi) of
// all stores to the cell; everything else follows the SSA definition.
func (b *TB) Of(v ssa.Value) *Term {
	if v == nil {
		return &Term{Op: "unknown", Name: "nil-value"}
	}
	if t, ok := b.memo[v]; ok {
		return t
	}
	if b.inprog[v] || b.depth > 60 {
		return &Term{Op: "unknown", Name: "cycle", V: v}
	}
	b.inprog[v] = true
	b.depth++
	t := b.build(v)
	b.depth--
	delete(b.inprog, v)
	if t.V == nil {
		t.V = v
	}
	if t.Typ == nil {
		t.Typ = v.Type()
	}
	b.memo[v] = t
	return t
}

func (b *TB) build(v ssa.Value) *Term {
	switch v := v.(type) {
	case *ssa.Const:
		return constTerm(v)
	case *ssa.Parameter:
		if t, ok := b.bind[v]; ok {
			return t
		}
		return &Term{Op: "param", Name: v.Name()}
	case *ssa.FreeVar:
		if t, ok := b.fvbind[v]; ok {
			return t
		}
		return &Term{Op: "freevar", Name: v.Name()}
	case *ssa.Global:
		return &Term{Op: "global", Name: v.Pkg.Pkg.Name() + "." + globalName(v)}
	case *ssa.Function:
		return &Term{Op: "fn", Name: funcName(v)}
	case *ssa.Builtin:
		return &Term{Op: "fn", Name: "builtin:" + v.Name()}
	case *ssa.FieldAddr:
		return &Term{Op: "field", Name: fieldName(v.X.Type(), v.Field), Args: []*Term{b.Of(v.X)}}
	case *ssa.Field:
		if xt := b.Of(v.X); xt.Op == "struct" && v.Field < len(xt.Args) {
			return xt.Args[v.Field]
		}
		return &Term{Op: "field", Name: fieldName(v.X.Type(), v.Field), Args: []*Term{b.Of(v.X)}}
	case *ssa.UnOp:
		if v.Op == token.MUL {
			if a, ok := v.X.(*ssa.Alloc); ok {
				return b.cellValue(a)
			}
			if fv, ok := v.X.(*ssa.FreeVar); ok {
				// a captured variable of an inlined closure: the cell of the creating function
				if t, bound := b.fvbind[fv]; bound && t.Op == "alloc" {
					if a, isA := t.V.(*ssa.Alloc); isA && cellStableForClosures(a) {
						return b.cellValue(a)
					}
				}
			}
			if fa, ok := v.X.(*ssa.FieldAddr); ok {
				if a, isA := fa.X.(*ssa.Alloc); isA && len(b.stack)+len(b.bind)+len(b.fvbind) > 0 {
					// a field of a local record (inside an inlined helper: the spilled value receiver, a record that
					// carries what a closure used to capture): the value stored there
					if xt := b.cellValue(a); xt.Op == "struct" && fa.Field < len(xt.Args) {
						return xt.Args[fa.Field]
					}
				}
				if a, isA := fa.X.(*ssa.Alloc); isA {
					// a field read from a local copy of a record (`head := orderBy[0]; … head.Key`): the copy is only ever
					// stored whole and never written field by field or handed out by address, so the field is the field of what
					// was stored (refactoring round 11, pipeline11-r1)
					if whole := wholeStoredRecord(a); whole != nil {
						return &Term{Op: "field", Name: fieldName(fa.X.Type(), fa.Field), Args: []*Term{b.Of(whole)}}
					}
				}
				return b.Of(v.X) // field load: (x).F
			}
			if ia, ok := v.X.(*ssa.IndexAddr); ok {
				return &Term{Op: "index", Args: []*Term{b.Of(ia.X), b.Of(ia.Index)}}
			}
			return &Term{Op: "load", Args: []*Term{b.Of(v.X)}}
		}
		return &Term{Op: "un", Name: v.Op.String(), Args: []*Term{b.Of(v.X)}}
	case *ssa.BinOp:
		return &Term{Op: "bin", Name: v.Op.String(), Args: []*Term{b.Of(v.X), b.Of(v.Y)}}
	case *ssa.Call:
		if t := b.inlineTerm(v); t != nil {
			return t
		}
		return b.callTerm(v.Common(), v)
	case *ssa.Extract:
		if tt := b.Of(v.Tuple); tt.Op == "tuple" && v.Index < len(tt.Args) {
			return tt.Args[v.Index]
		}
		return &Term{Op: "ext", Name: fmt.Sprint(v.Index), Args: []*Term{b.Of(v.Tuple)}}
	case *ssa.Phi:
		t := &Term{Op: "phi"}
		seen := map[string]bool{}
		for _, e := range v.Edges {
			et := b.Of(e)
			if !seen[et.String()] {
				seen[et.String()] = true
				t.Args = append(t.Args, et)
			}
		}
		if len(t.Args) == 1 {
			return t.Args[0]
		}
		return t
	case *ssa.MakeInterface:
		return b.Of(v.X)
	case *ssa.ChangeInterface:
		return b.Of(v.X)
	case *ssa.ChangeType:
		return b.Of(v.X)
	case *ssa.Convert:
		return &Term{Op: "conv", Name: shortType(v.Type()), Args: []*Term{b.Of(v.X)}}
	case *ssa.TypeAssert:
		op := "assert"
		if v.CommaOk {
			op = "assertok"
		}
		return &Term{Op: op, Name: shortType(v.AssertedType), Args: []*Term{b.Of(v.X)}}
	case *ssa.Alloc:
		return &Term{Op: "alloc", Name: v.Comment + "@" + v.Name()}
	case *ssa.IndexAddr:
		return &Term{Op: "index", Args: []*Term{b.Of(v.X), b.Of(v.Index)}}
	case *ssa.Index:
		return &Term{Op: "index", Args: []*Term{b.Of(v.X), b.Of(v.Index)}}
	case *ssa.Lookup:
		op := "lookup"
		if v.CommaOk {
			op = "lookupok"
		}
		return &Term{Op: op, Args: []*Term{b.Of(v.X), b.Of(v.Index)}}
	case *ssa.Slice:
		if a, ok := v.X.(*ssa.Alloc); ok && a.Comment == "varargs" {
			return b.varargs(a)
		}
		t := &Term{Op: "slice", Args: []*Term{b.Of(v.X)}}
		for _, x := range []ssa.Value{v.Low, v.High, v.Max} {
			if x != nil {
				t.Args = append(t.Args, b.Of(x))
			} else {
				t.Args = append(t.Args, &Term{Op: "const", Name: "-"})
			}
		}
		return t
	case *ssa.MakeMap:
		return &Term{Op: "make", Name: "map@" + v.Name()}
	case *ssa.MakeSlice:
		return &Term{Op: "make", Name: "slice@" + v.Name()}
	case *ssa.MakeChan:
		return &Term{Op: "make", Name: "chan@" + v.Name()}
	case *ssa.MakeClosure:
		t := &Term{Op: "closure", Name: funcName(v.Fn.(*ssa.Function)), V: v, env: b}
		return t
	case *ssa.Next:
		return &Term{Op: "next", Name: "iter", Args: []*Term{b.Of(v.Iter)}}
	case *ssa.Range:
		return &Term{Op: "range", Name: "", Args: []*Term{b.Of(v.X)}}
	}
	return &Term{Op: "unknown", Name: fmt.Sprintf("%T", v)}
}

// inlineTerm: the value of a call of a module function the rule tables do not know (a helper extracted by a
// refactoring), or of a function value that reached the call through such a helper's parameter, a captured
// variable or a read-only dispatch table: the union of what the callee returns, with its parameters bound to the
// argument terms. nil: the call stays opaque. Bounded: nesting depth 3, no recursion.
func (b *TB) inlineTerm(call *ssa.Call) *Term {
	c := call.Common()
	if c.IsInvoke() || len(b.stack) >= 3 {
		return nil
	}
	var h *ssa.Function
	var clo *Term
	if sc := c.StaticCallee(); sc != nil {
		if _, direct := c.Value.(*ssa.MakeClosure); direct || !isUnknownHelper(sc) {
			return nil
		}
		h = sc
	} else {
		switch c.Value.(type) {
		case *ssa.Parameter, *ssa.FreeVar, *ssa.Extract, *ssa.Lookup:
		default:
			return nil
		}
		ft := b.Of(c.Value)
		switch ft.Op {
		case "closure":
			mc, ok := ft.V.(*ssa.MakeClosure)
			if !ok || ft.env == nil {
				return nil
			}
			h, clo = mc.Fn.(*ssa.Function), ft
		case "fn":
			f, ok := ft.V.(*ssa.Function)
			if !ok {
				return nil
			}
			if !isUnknownHelper(f) && f.Parent() == nil {
				// a named function behind a function value: the call reads as a static call of it
				t := &Term{Op: "call", Name: funcName(f)}
				for _, a := range c.Args {
					t.Args = append(t.Args, b.Of(a))
				}
				return t
			}
			h = f
		default:
			return nil
		}
	}
	if h == nil || len(h.Blocks) == 0 || !strings.HasPrefix(funcPkgPath(h), modPath) {
		return nil
	}
	for _, s := range b.stack {
		if s == h {
			return nil
		}
	}
	if calleesInclude(h, h, 0) {
		return nil
	}
	child := NewTB()
	child.stack = append(append([]*ssa.Function(nil), b.stack...), h)
	child.bind = map[*ssa.Parameter]*Term{}
	for i, p := range h.Params {
		if i < len(c.Args) {
			child.bind[p] = b.Of(c.Args[i])
		}
	}
	if clo != nil {
		mc := clo.V.(*ssa.MakeClosure)
		child.fvbind = map[*ssa.FreeVar]*Term{}
		for i, fv := range h.FreeVars {
			if i < len(mc.Bindings) {
				child.fvbind[fv] = clo.env.Of(mc.Bindings[i])
			}
		}
	}
	nres := h.Signature.Results().Len()
	comps := make([]*Term, nres)
	seen := make([]map[string]bool, nres)
	for i := range comps {
		comps[i] = &Term{Op: "phi"}
		seen[i] = map[string]bool{}
	}
	for _, blk := range h.Blocks {
		for _, in := range blk.Instrs {
			ret, ok := in.(*ssa.Return)
			if !ok || len(ret.Results) != nres {
				continue
			}
			for i, r := range ret.Results {
				rt := child.Of(r)
				if !seen[i][rt.String()] {
					seen[i][rt.String()] = true
					comps[i].Args = append(comps[i].Args, rt)
				}
			}
		}
	}
	for i, ct := range comps {
		switch len(ct.Args) {
		case 0:
			comps[i] = &Term{Op: "unknown", Name: "no-return"}
		case 1:
			comps[i] = ct.Args[0]
		}
	}
	switch nres {
	case 0:
		return nil
	case 1:
		return comps[0]
	}
	return &Term{Op: "tuple", Name: funcName(h), Args: comps}
}

func (b *TB) callTerm(c *ssa.CallCommon, v ssa.Value) *Term {
	t := &Term{Op: "call", Name: calleeName(c)}
	if c.IsInvoke() {
		t.Args = append(t.Args, b.Of(c.Value))
	} else if t.Name == "dyn" {
		t.Args = append(t.Args, b.Of(c.Value))
	}
	for _, a := range c.Args {
		t.Args = append(t.Args, b.Of(a))
	}
	return t
}

// cellValue: the union of everything stored into a local cell (flow-insensitive).
func (b *TB) cellValue(a *ssa.Alloc) *Term {
	t := &Term{Op: "phi"}
	seen := map[string]bool{}
	for _, st := range storesTo(a) {
		et := b.Of(st.Val)
		if !seen[et.String()] {
			seen[et.String()] = true
			t.Args = append(t.Args, et)
		}
	}
	if len(t.Args) == 0 {
		if st := b.structCell(a); st != nil {
			return st
		}
		return &Term{Op: "const", Name: "zero"}
	}
	if len(t.Args) == 1 {
		return t.Args[0]
	}
	return t
}

// structCell: a local struct that is only built field by field (a composite literal): the term of its value
// lists the fields' values, so that a field read from a copy of it resolves to what was stored.
func (b *TB) structCell(a *ssa.Alloc) *Term {
	pt, ok := a.Type().Underlying().(*types.Pointer)
	if !ok {
		return nil
	}
	st, ok := pt.Elem().Underlying().(*types.Struct)
	if !ok || a.Referrers() == nil {
		return nil
	}
	t := &Term{Op: "struct", Name: shortType(pt.Elem())}
	for i := 0; i < st.NumFields(); i++ {
		t.Args = append(t.Args, &Term{Op: "const", Name: "zero"})
	}
	n := 0
	for _, r := range *a.Referrers() {
		fa, ok := r.(*ssa.FieldAddr)
		if !ok || fa.Referrers() == nil {
			continue
		}
		for _, u := range *fa.Referrers() {
			if s, ok := u.(*ssa.Store); ok && s.Addr == fa {
				ft := b.Of(s.Val)
				if cur := t.Args[fa.Field]; cur.Op == "const" && cur.Name == "zero" {
					t.Args[fa.Field] = ft
				} else if cur.String() != ft.String() {
					t.Args[fa.Field] = &Term{Op: "phi", Args: []*Term{cur, ft}}
				}
				n++
			}
		}
	}
	if n == 0 {
		return nil
	}
	return t
}

// storesTo lists the Store instructions whose address is the cell itself, in the function that
// owns the cell and in every closure that captures it.
func storesTo(a *ssa.Alloc) []*ssa.Store {
	var out []*ssa.Store
	var visit func(v ssa.Value)
	seen := map[ssa.Value]bool{}
	visit = func(v ssa.Value) {
		if seen[v] {
			return
		}
		seen[v] = true
		refs := v.Referrers()
		if refs == nil {
			return
		}
		for _, r := range *refs {
			switch r := r.(type) {
			case *ssa.Store:
				if r.Addr == v {
					out = append(out, r)
				}
			case *ssa.MakeClosure:
				fn := r.Fn.(*ssa.Function)
				for i, bnd := range r.Bindings {
					if bnd == v && i < len(fn.FreeVars) {
						visit(fn.FreeVars[i])
					}
				}
			}
		}
	}
	visit(a)
	return out
}

func (b *TB) varargs(a *ssa.Alloc) *Term {
	t := &Term{Op: "varargs"}
	type ent struct {
		i int64
		t *Term
	}
	var es []ent
	if refs := a.Referrers(); refs != nil {
		for _, r := range *refs {
			ia, ok := r.(*ssa.IndexAddr)
			if !ok {
				continue
			}
			c, ok := ia.Index.(*ssa.Const)
			if !ok {
				continue
			}
			idx, _ := constant.Int64Val(c.Value)
			if rr := ia.Referrers(); rr != nil {
				for _, s := range *rr {
					if st, ok := s.(*ssa.Store); ok && st.Addr == ia {
						es = append(es, ent{idx, b.Of(st.Val)})
					}
				}
			}
		}
	}
	sort.Slice(es, func(i, j int) bool { return es[i].i < es[j].i })
	for _, e := range es {
		t.Args = append(t.Args, e.t)
	}
	return t
}

func fieldName(t types.Type, idx int) string {
	if p, ok := t.Underlying().(*types.Pointer); ok {
		t = p.Elem()
	}
	if st, ok := t.Underlying().(*types.Struct); ok && idx < st.NumFields() {
		return fieldVarName(st.Field(idx))
	}
	return fmt.Sprintf("#%d", idx)
}

// ---- evaluation of terms over finite assignments (no solver: plain substitution) -------

// Asg assigns constants to atoms, keyed by canonical term string.
type Asg map[string]constant.Value

// EvalTerm evaluates t under the assignment. ok=false when some leaf is neither a constant
// nor an assigned atom.
func EvalTerm(t *Term, asg Asg) (constant.Value, bool) {
	if v, ok := asg[t.String()]; ok {
		return v, true
	}
	switch t.Op {
	case "const":
		if c, ok := t.V.(*ssa.Const); ok && c.Value != nil {
			return c.Value, true
		}
		return nil, false
	case "bin":
		x, ok1 := EvalTerm(t.Args[0], asg)
		y, ok2 := EvalTerm(t.Args[1], asg)
		if !ok1 || !ok2 {
			// short-circuit friendly: nothing
			return nil, false
		}
		return foldBin(t.Name, x, y)
	case "un":
		x, ok := EvalTerm(t.Args[0], asg)
		if !ok {
			return nil, false
		}
		return foldUn(t.Name, x)
	case "conv":
		x, ok := EvalTerm(t.Args[0], asg)
		if !ok {
			return nil, false
		}
		if x.Kind() == constant.Int || x.Kind() == constant.Bool || x.Kind() == constant.String {
			return x, true
		}
		return nil, false
	case "ext":
		// the presence flag of a lookup in a read-only dispatch table, for a key the assignment determines
		if t.Name == "1" && len(t.Args) == 1 && t.Args[0].Op == "lookupok" {
			if _, present, decided := roLookup(t.Args[0], asg); decided {
				return constant.MakeBool(present), true
			}
		}
		return nil, false
	case "phi":
		var res constant.Value
		for _, a := range t.Args {
			v, ok := EvalTerm(a, asg)
			if !ok {
				return nil, false
			}
			if res == nil {
				res = v
			} else if !constant.Compare(res, token.EQL, v) {
				return nil, false
			}
		}
		return res, res != nil
	}
	return nil, false
}

func tokOf(op string) token.Token {
	for t := token.ADD; t <= token.TILDE; t++ {
		if t.String() == op {
			return t
		}
	}
	return token.ILLEGAL
}

func foldBin(op string, x, y constant.Value) (v constant.Value, ok bool) {
	defer func() {
		if recover() != nil {
			v, ok = nil, false
		}
	}()
	tk := tokOf(op)
	switch tk {
	case token.EQL, token.NEQ, token.LSS, token.LEQ, token.GTR, token.GEQ:
		if x.Kind() != y.Kind() && !(isNum(x) && isNum(y)) {
			return nil, false
		}
		if x.Kind() == constant.Bool && tk != token.EQL && tk != token.NEQ {
			return nil, false
		}
		return constant.MakeBool(constant.Compare(x, tk, y)), true
	case token.SHL, token.SHR:
		n, exact := constant.Uint64Val(y)
		if !exact || n > 64 {
			return nil, false
		}
		return constant.Shift(x, tk, uint(n)), true
	case token.LAND, token.LOR, token.ADD, token.SUB, token.MUL, token.AND, token.OR, token.XOR, token.AND_NOT:
		return constant.BinaryOp(x, tk, y), true
	case token.QUO:
		if isNum(y) && constant.Sign(y) == 0 {
			return nil, false
		}
		if x.Kind() == constant.Int && y.Kind() == constant.Int {
			return constant.BinaryOp(x, token.QUO_ASSIGN, y), true
		}
		return constant.BinaryOp(x, tk, y), true
	case token.REM:
		if constant.Sign(y) == 0 {
			return nil, false
		}
		return constant.BinaryOp(x, tk, y), true
	}
	return nil, false
}

func isNum(x constant.Value) bool { return x.Kind() == constant.Int || x.Kind() == constant.Float }

func foldUn(op string, x constant.Value) (v constant.Value, ok bool) {
	defer func() {
		if recover() != nil {
			v, ok = nil, false
		}
	}()
	switch op {
	case "!":
		return constant.UnaryOp(token.NOT, x, 0), true
	case "-":
		return constant.UnaryOp(token.SUB, x, 0), true
	case "^":
		return constant.UnaryOp(token.XOR, x, 0), true
	}
	return nil, false
}

// cellStableForClosures: what a closure reads from the captured cell when it runs is what the cell held when the
// closure was made — true when no store to the cell sits in a loop that the cell's own allocation is outside of (a
// variable declared before a loop and reassigned in every round has moved on by the time a closure made in an earlier
// round runs; a per-round variable has not).
func cellStableForClosures(a *ssa.Alloc) bool {
	fn := a.Parent()
	if fn == nil {
		return false
	}
	var headers []*ssa.BasicBlock
	for _, b := range fn.Blocks {
		for _, p := range b.Preds {
			if b.Dominates(p) {
				headers = append(headers, b)
				break
			}
		}
	}
	for _, st := range storesTo(a) {
		if st.Parent() != fn {
			continue // a store made by a closure: not a matter of loop rounds of the creator
		}
		for _, h := range headers {
			inLoop := func(b *ssa.BasicBlock) bool { return b == h || inNaturalLoop(h, b) }
			if inLoop(st.Block()) && !inLoop(a.Block()) {
				return false
			}
		}
	}
	return true
}

// fieldVarName: the name of a struct field as the rules know it (the pinned tree's name for a field that the analysed
// tree renamed; resolveRenames).
func fieldVarName(v *types.Var) string {
	if a, ok := fieldAlias[v]; ok {
		return a
	}
	return v.Name()
}

// globalName: the name of a package-level variable as the rules know it (resolveRenames).
func globalName(g *ssa.Global) string {
	if a, ok := globalAlias[g]; ok {
		return a
	}
	return g.Name()
}

// wholeStoredRecord: the local cell a holds a struct that is assigned as a whole exactly once and otherwise only read
// through its fields (no field store, no address escaping): the stored value, else nil.
func wholeStoredRecord(a *ssa.Alloc) ssa.Value {
	pt, ok := a.Type().Underlying().(*types.Pointer)
	if !ok {
		return nil
	}
	if _, isStruct := pt.Elem().Underlying().(*types.Struct); !isStruct {
		return nil
	}
	refs := a.Referrers()
	if refs == nil {
		return nil
	}
	var whole ssa.Value
	for _, r := range *refs {
		switch x := r.(type) {
		case *ssa.Store:
			if x.Addr != ssa.Value(a) || whole != nil {
				return nil
			}
			whole = x.Val
		case *ssa.FieldAddr:
			if x.X != ssa.Value(a) {
				return nil
			}
			if fr := x.Referrers(); fr != nil {
				for _, u := range *fr {
					ld, isLoad := u.(*ssa.UnOp)
					if !isLoad || ld.Op != token.MUL {
						return nil
					}
				}
			}
		case *ssa.UnOp:
			if x.Op != token.MUL {
				return nil
			}
		case *ssa.DebugRef:
		default:
			return nil
		}
	}
	return whole
}
