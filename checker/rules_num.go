package main

import (
	"fmt"
	"go/types"
	"sort"
	"strings"

	"golang.org/x/tools/go/ssa"
)

// num.strconv-exact — every conversion between a number and its decimal text that the module makes through strconv is the
// exact one for the Go type involved. The values of this library are float64 (literals, JSON numbers, arithmetic) and the
// texts it reads are decimal: a bit size of 32 for a float64 rounds to the nearest float32 first (16777217 -> "16777216"),
// a base other than 10 reads "00120" as octal and accepts "0x1F" and "1_000". Added after round 7 ({k|string} with bit
// size 32, CHANGETYPE(..., 'integer') through ParseInt(text, 0, 64)): both compile, pass the suite and misbehave only for
// values with more than 24 significant bits / texts with a leading zero.
func init() {
	for _, id := range []string{"C01", "C02", "C04", "C05", "C09", "C15", "C16", "C18", "C20"} {
		register(id, ruleNumStrconvExact)
	}
}

func ruleNumStrconvExact(c *Ctx) {
	c.Doc("num.strconv-exact", "every strconv call of the module converts exactly: FormatFloat/AppendFloat of a float64 with bit size 64 (32 only for a value widened from float32), ParseFloat with bit size 64, ParseInt/ParseUint with base 10 and bit size 0 or 64, FormatInt/FormatUint/AppendInt/AppendUint with base 10 — bit sizes and bases are constants")
	var fns []*ssa.Function
	for _, f := range c.P.ModFuncs {
		if len(f.Blocks) > 0 && strings.HasPrefix(funcPkgPath(f), modPath) {
			fns = append(fns, f)
		}
	}
	sort.Slice(fns, func(i, j int) bool { return c.P.funcKey(fns[i]) < c.P.funcKey(fns[j]) })
	n := 0
	seen := map[string]int{}
	for _, f := range fns {
		// an instantiation repeats its generic origin's call sites: one obligation per source position
		allInstrs(f, func(_ *ssa.BasicBlock, in ssa.Instruction) {
			call, ok := in.(ssa.CallInstruction)
			if !ok {
				return
			}
			cal := call.Common().StaticCallee()
			if cal == nil || cal.Pkg == nil || cal.Pkg.Pkg.Path() != "strconv" {
				return
			}
			a := call.Common().Args
			name := cal.Name()
			why := ""
			constArg := func(i int) (int64, bool) {
				if i >= len(a) {
					return 0, false
				}
				return constIntOf(a[i])
			}
			fromFloat32 := func(v ssa.Value) bool {
				cv, isCv := v.(*ssa.Convert)
				if !isCv {
					return false
				}
				bt, isB := cv.X.Type().Underlying().(*types.Basic)
				return isB && bt.Kind() == types.Float32
			}
			switch name {
			case "FormatFloat", "AppendFloat":
				vi := 0
				if name == "AppendFloat" {
					vi = 1
				}
				bits, isC := constArg(vi + 3)
				switch {
				case !isC:
					why = "the bit size is not a constant"
				case fromFloat32(a[vi]) && bits != 32:
					why = fmt.Sprintf("a value widened from float32 is written with bit size %d: the text is that of the widened double (0.1 -> 0.10000000149011612)", bits)
				case !fromFloat32(a[vi]) && bits != 64:
					why = fmt.Sprintf("a float64 is written with bit size %d: it is rounded to the nearest float32 first (16777217 -> 16777216)", bits)
				}
			case "ParseFloat":
				if bits, isC := constArg(1); !isC || bits != 64 {
					why = "a decimal text is parsed with a bit size other than 64: the value is rounded to float32 precision"
				}
			case "ParseInt", "ParseUint":
				base, isB := constArg(1)
				bits, isC := constArg(2)
				switch {
				case !isB || base != 10:
					why = "a decimal text is parsed with a base other than 10 (base 0 reads a leading zero as octal and accepts 0x, 0b and underscores)"
				case !isC || (bits != 0 && bits != 64):
					why = fmt.Sprintf("an integer text is parsed with bit size %d", bits)
				}
			case "FormatInt", "FormatUint":
				if base, isB := constArg(1); !isB || base != 10 {
					why = "an integer is written in a base other than 10"
				}
			case "AppendInt", "AppendUint":
				if base, isB := constArg(2); !isB || base != 10 {
					why = "an integer is written in a base other than 10"
				}
			default:
				return // Atoi, Itoa, FormatBool, Quote...: no base or bit size to get wrong
			}
			pos := c.P.Pos(in.Pos())
			fk := c.P.funcKey(f)
			if o := f.Origin(); o != nil {
				fk = c.P.funcKey(o)
			}
			id := fk + "/" + name
			if _, dup := seen[pos]; dup {
				return
			}
			seen[pos] = 1
			seen[id]++
			n++
			c.Fn(fk)
			c.Check(why == "", "num.strconv-exact", fmt.Sprintf("%s#%d", id, seen[id]), pos, "exact conversion (constant base 10 / bit size of the value's type)", why)
		})
	}
	if n == 0 {
		c.PassTrivial("num.strconv-exact", "module", "-", "the module makes no strconv conversion with a base or bit size")
	}
}
