package main

import (
	"fmt"
	"go/token"
	"os"
	"strings"

	"golang.org/x/tools/go/ssa"
)

func init() {
	register("C06", ruleC06UnionFields, ruleC06UnionWiring, ruleC06BranchExec, ruleC06EmptyList, ruleC06BranchKinds, ruleC06DistinctLoop, ruleC06DistinctWiring, ruleExecScansEveryRow)
}

func (c *Ctx) unionFunc() (*ssa.Function, string) {
	f := c.theFunc("union builder", "*sqlparser.Union", "BuildUnion")
	if f == nil {
		return nil, ""
	}
	return f, paramNameOfType(f, "*sqlparser.Union")
}

func ruleC06UnionFields(c *Ctx) {
	c.Doc("c06.fields-consumed", "the union builder reads every field of *sqlparser.Union that carries meaning for the property: Left, Right, Distinct (UNION vs UNION ALL), Limit, OrderBy and With")
	c.NotDecidedClause("C06: whether two different rows can share a %v fingerprint (value-level); multiset equalities on concrete tables")
	f, ep := c.unionFunc()
	if f == nil {
		c.Unknown("c06.fields-consumed", "BuildUnion", "-", "anchor lost: no function takes *sqlparser.Union")
		return
	}
	read := map[string]bool{}
	for _, g := range withClosures(f) {
		allInstrs(g, func(_ *ssa.BasicBlock, in ssa.Instruction) {
			if fa, ok := in.(*ssa.FieldAddr); ok && isNamedType(fa.X.Type(), sqlp, "Union") {
				if refs := fa.Referrers(); refs != nil {
					for _, r := range *refs {
						if u, ok := r.(*ssa.UnOp); ok && u.X == ssa.Value(fa) {
							read[fieldName(fa.X.Type(), fa.Field)] = true
						}
						// the field's address handed to a builder (BuildOrder(query, &expr.OrderBy))
						if _, ok := r.(ssa.CallInstruction); ok {
							read[fieldName(fa.X.Type(), fa.Field)] = true
						}
					}
				}
			}
		})
	}
	_ = ep
	for _, fld := range []string{"Left", "Right", "Distinct", "Limit", "With", "OrderBy"} {
		c.Check(read[fld], "c06.fields-consumed", c.P.funcKey(f)+"/"+fld, c.P.Pos(f.Pos()), "field is read on the build path", "Union."+fld+" is never read by the union builder"+map[string]string{"Distinct": ": UNION and UNION ALL cannot differ", "Limit": ": a LIMIT on the union is ignored", "OrderBy": ": an ORDER BY on the union is silently dropped (and its LIMIT cuts from the unsorted rows)"}[fld])
	}
}

func ruleC06UnionWiring(c *Ctx) {
	c.Doc("c06.union-wiring", "on the union builder's success path: the union's source rows are append(append(fresh, L...), R...) where L derives from executing expr.Left and R from expr.Right (in that order); query.distinct is set from expr.Distinct; the select list installed is a non-empty projection of the whole row (*); BuildLimit(query, expr.Limit) is called")
	f, ep := c.unionFunc()
	if f == nil {
		c.Unknown("c06.union-wiring", "BuildUnion", "-", "anchor lost")
		return
	}
	key := c.P.funcKey(f)
	paths, err := WalkFunc(f, WalkCfg{MaxVisits: 1, MaxPaths: 4000})
	if err != nil {
		c.Unknown("c06.union-wiring", key, c.P.Pos(f.Pos()), err.Error())
		return
	}
	var why []string
	n := 0
	for _, p := range paths {
		if p.Exit != "return" || len(p.Ret) != 1 {
			continue
		}
		// a success path returns nil, or forwards the result of the last build step (`return BuildLimit(...)`)
		if !p.Ret[0].Nil && !(p.Ret[0].T != nil && p.Ret[0].T.Op == "call") {
			continue
		}
		// success = every error test assumed nil
		bad := false
		for k, v := range p.Asg {
			if kt := p.KeyTerm[k]; kt != nil {
				if x, ok := isNilTest(kt); ok && isErrorType(x) && !isTrueC(v) {
					bad = true
				}
			}
		}
		if bad {
			continue
		}
		n++
		var fromVal, distinctVal *Term
		sawLimit, sawStar := false, false
		for _, e := range p.Effects {
			switch e.Kind {
			case "store":
				if e.Args[0].Op == "field" && e.Args[0].Name == "from" {
					fromVal = e.Args[1]
				}
				if e.Args[0].Op == "field" && e.Args[0].Name == "distinct" {
					distinctVal = e.Args[1]
				}
				if strings.Contains(e.Args[1].String(), "StarExpr") || e.Args[1].Typ != nil && strings.Contains(e.Args[1].Typ.String(), "StarExpr") {
					sawStar = true
				}
			case "call":
				if strings.HasSuffix(e.Callee, "BuildUnion") {
					why = append(why, "the union builder is re-entered on the same query for a branch")
				}
				if strings.HasSuffix(e.Callee, "BuildLimit") && len(e.Args) == 2 && e.Args[1].Op == "field" && e.Args[1].Name == "Limit" && e.Args[1].Args[0].Op == "param" && e.Args[1].Args[0].Name == ep {
					sawLimit = true
				}
			}
		}
		if !sawLimit {
			why = append(why, "BuildLimit(query, expr.Limit) is not called on the success path")
		}
		sawOrder := false
		for _, e := range p.Effects {
			if e.Kind == "call" && strings.HasSuffix(e.Callee, "BuildOrder") && len(e.Args) == 2 && strings.Contains(e.Args[1].String(), ".OrderBy") && strings.Contains(e.Args[1].String(), "p:"+ep) {
				sawOrder = true
			}
		}
		if !sawOrder {
			why = append(why, "BuildOrder(query, &expr.OrderBy) is not called on the success path: the union's ORDER BY is dropped")
		}
		if distinctVal == nil || !(distinctVal.Op == "field" && distinctVal.Name == "Distinct" && distinctVal.Args[0].Op == "param" && distinctVal.Args[0].Name == ep) {
			why = append(why, "query.distinct is not set from expr.Distinct (found "+termStr(distinctVal)+")")
		}
		if !sawStar {
			why = append(why, "the union's select list is not a projection of the whole row: an empty list projects every row to {}")
		}
		if fromVal == nil {
			why = append(why, "query.from is not set")
		} else {
			// append(append(fresh, L...), R...)
			outer, ok1 := callArgs(fromVal, "builtin:append")
			okShape := false
			if ok1 && len(outer) == 2 {
				inner, ok2 := callArgs(outer[0], "builtin:append")
				if ok2 && len(inner) == 2 {
					base := inner[0].String()
					l, r := inner[1], outer[1]
					freshBase := strings.HasPrefix(base, "slice:alloc:makeslice") || strings.HasPrefix(base, "make:slice") || base == "c:nil"
					lOK := fieldsRead(l, ep)["Left"] && !fieldsRead(l, ep)["Right"]
					rOK := fieldsRead(r, ep)["Right"] && !fieldsRead(r, ep)["Left"]
					switch {
					case !freshBase:
						why = append(why, "the concatenation does not start from a fresh slice: "+base)
					case !lOK || !rOK:
						why = append(why, "the concatenation is not (rows of expr.Left)… then (rows of expr.Right)…: "+l.String()+" ; "+r.String())
					default:
						okShape = true
					}
				}
			}
			if !okShape && len(why) == 0 {
				// the pre-sized form: make([]any, len(L)+len(R)); copy(rows, L); copy(rows[len(L):], R)
				if ms, isMS := fromVal.V.(*ssa.MakeSlice); isMS {
					var l, r *Term
					for _, e := range p.Effects {
						if e.Kind != "call" || e.Callee != "builtin:copy" || len(e.Args) != 2 {
							continue
						}
						dst, src := e.Args[0], e.Args[1]
						if os.Getenv("GENQLCHECK_DEBUG") != "" {
							fmt.Fprintf(os.Stderr, "union-wiring copy: dst=%s (op %s, nargs %d) src=%s len=%s\n", dst, dst.Op, len(dst.Args), src, NewTB().Of(ms.Len))
						}
						switch {
						case dst.V == ssa.Value(ms):
							l = src
						case dst.Op == "slice" && len(dst.Args) >= 3 && dst.Args[0].V == ssa.Value(ms) && l != nil && dst.Args[1].String() == "builtin:len("+l.String()+")" && dst.Args[2].String() == "c:-":
							r = src
						}
					}
					if l != nil && r != nil && NewTB().Of(ms.Len).String() == "(builtin:len("+l.String()+") + builtin:len("+r.String()+"))" &&
						fieldsRead(l, ep)["Left"] && !fieldsRead(l, ep)["Right"] && fieldsRead(r, ep)["Right"] && !fieldsRead(r, ep)["Left"] {
						okShape = true
					}
				}
			}
			if !okShape && len(why) == 0 {
				why = append(why, "query.from is not append(append(fresh, left...), right...): "+fromVal.String())
			}
		}
	}
	if n == 0 {
		why = append(why, "no success path found")
	}
	c.Check(len(why) == 0, "c06.union-wiring", key, c.P.Pos(f.Pos()), fmt.Sprintf("%d success paths: left rows then right rows, distinct from the statement, * projection, limit applied", n), strings.Join(uniq(why), "; "))
}

// ruleC06BranchExec: every branch is executed as a query of its own.
func ruleC06BranchExec(c *Ctx) {
	c.Doc("c06.branch-exec", "each union branch is executed as a query of its own: the rows a branch contributes derive, on every success path, from execAndPostProcess() of a query prepared from that branch's statement (so a nested UNION keeps its own DISTINCT and LIMIT); the only other success value is an empty slice")
	f, ep := c.unionFunc()
	if f == nil {
		c.Unknown("c06.branch-exec", "BuildUnion", "-", "anchor lost")
		return
	}
	// the helper(s) that receive expr.Left / expr.Right
	helpers := map[*ssa.Function]int{}
	allInstrs(f, func(_ *ssa.BasicBlock, in ssa.Instruction) {
		call, ok := in.(*ssa.Call)
		if !ok || call.Common().StaticCallee() == nil || !c.P.InModule(call.Common().StaticCallee()) {
			return
		}
		for i, a := range call.Common().Args {
			fr := fieldsRead(NewTB().Of(a), ep)
			if fr["Left"] || fr["Right"] {
				helpers[call.Common().StaticCallee()] = i
			}
		}
	})
	check := func(fn *ssa.Function, stmtTerm func(t *Term) bool, key string) {
		paths, err := WalkFunc(fn, WalkCfg{MaxVisits: 1, MaxPaths: 4000})
		if err != nil {
			c.Unknown("c06.branch-exec", key, c.P.Pos(fn.Pos()), err.Error())
			return
		}
		ok, why, n := true, "", 0
		for _, p := range paths {
			if p.Exit != "return" || len(p.Ret) != 2 || !p.Ret[1].Nil && !(p.Ret[1].T != nil && p.Ret[1].T.Op == "ext") {
				continue
			}
			bad := false
			for k, v := range p.Asg {
				if kt := p.KeyTerm[k]; kt != nil {
					if x, isN := isNilTest(kt); isN && isErrorType(x) && !isTrueC(v) {
						bad = true
					}
				}
			}
			if bad {
				continue
			}
			n++
			r := p.Ret[0].T
			rs := termStr(r)
			own := r != nil && r.Contains(func(x *Term) bool {
				if x.Op != "call" || !(strings.HasSuffix(x.Name, ".execAndPostProcess") || strings.HasSuffix(x.Name, ".exec")) || len(x.Args) == 0 {
					return false
				}
				recv := ext0(x.Args[0])
				if recv == nil {
					return false
				}
				a, isPrep := callArgs(recv, "Prepare")
				return isPrep && len(a) == 3 && stmtTerm(a[1])
			})
			empty := strings.HasPrefix(rs, "slice:alloc:") || strings.HasPrefix(rs, "make:slice") || r != nil && r.Op == "alloc"
			if !own && !empty {
				ok, why = false, "a success path yields "+rs+", which is not the result of executing the branch's own statement as a query"
			}
			if !own && empty {
				// "no rows" is answered only for a branch that returned nothing at all (a nil result): a result of another
				// shape -- the single row of a FROM-less branch is an object, not a list -- is a result
				nothing := false
				for k, v := range p.Asg {
					if kt := p.KeyTerm[k]; kt != nil {
						if x, isN := isNilTest(kt); isN && !isErrorType(x) && isTrueC(v) {
							nothing = true
						}
					}
				}
				if !nothing {
					ok, why = false, "a success path answers with an empty list although the branch's result was not nil (under "+p.String()+"): the row of a FROM-less branch, which is handed over as an object, is dropped from the union"
				}
			}
		}
		if n == 0 {
			ok, why = false, "no success path"
		}
		c.Check(ok, "c06.branch-exec", key, c.P.Pos(fn.Pos()), fmt.Sprintf("%d success paths all return rows of Prepare(branch statement).execAndPostProcess()", n), why)
	}
	if len(helpers) == 0 {
		// inline form: the builder itself prepares and executes both branches
		check(f, func(t *Term) bool { fr := fieldsRead(t, ep); return fr["Left"] || fr["Right"] }, c.P.funcKey(f)+"/inline")
		return
	}
	for h, idx := range helpers {
		if h.Name() == "Prepare" {
			check(f, func(t *Term) bool { fr := fieldsRead(t, ep); return fr["Left"] || fr["Right"] }, c.P.funcKey(f)+"/inline")
			continue
		}
		c.Fn(c.P.funcKey(h))
		pn := ""
		if idx < len(h.Params) {
			pn = h.Params[idx].Name()
		}
		check(h, func(t *Term) bool {
			return t.Contains(func(x *Term) bool { return x.Op == "param" && x.Name == pn })
		}, c.P.funcKey(h))
	}
}

// ruleExecScansEveryRow: the row loop of exec has no exit other than exhaustion or an error.
func ruleExecScansEveryRow(c *Ctx) {
	c.Doc("exec.scan-complete", "the loop of (*Query).exec over query.from examines every source row: an iteration ends by moving to the next row or by returning an error; it never leaves the loop early with success (no break / early return) — later stages (grouping, DISTINCT, ORDER BY, the LIMIT window) see all rows that passed WHERE")
	exec := c.P.Method(modPath, "Query", "exec")
	if exec == nil {
		c.Unknown("exec.scan-complete", "(*Query).exec", "-", "anchor lost")
		return
	}
	c.Fn("(*Query).exec")
	scan := c.findExecScan(exec)
	if scan == nil {
		c.Unknown("exec.scan-complete", "(*Query).exec", c.P.Pos(exec.Pos()), "anchor lost: no loop over query.from")
		return
	}
	lp := scan.lp
	ei := errIdx(scan.fn)
	// any block of the loop with a successor outside the loop, other than the header itself, is an early exit;
	// it must lead to an error return only
	ok, why := true, ""
	for _, b := range scan.fn.Blocks {
		if !inNaturalLoop(lp.header, b) {
			continue
		}
		for _, s := range b.Succs {
			if s == lp.header || inNaturalLoop(lp.header, s) {
				continue
			}
			// s is outside the loop: every path from s must be an error return
			paths, err := WalkFrom(scan.fn, s, b, WalkCfg{MaxVisits: 1, MaxPaths: 3000, NoEffects: true})
			if err != nil {
				ok, why = false, err.Error()
				continue
			}
			for _, p := range paths {
				if p.Exit == "return" && ei >= 0 && ei < len(p.Ret) && p.Ret[ei].Nil {
					ok, why = false, "the scan of query.from can be left at "+c.P.Pos(b.Instrs[len(b.Instrs)-1].Pos())+" before all rows were examined, and exec still returns successfully"
				}
				if p.Exit == "cut" || p.Exit == "stop" {
					ok, why = false, "the scan of query.from can be left early at "+c.P.Pos(b.Instrs[len(b.Instrs)-1].Pos())
				}
			}
		}
	}
	c.Check(ok, "exec.scan-complete", "(*Query).exec/row-loop", c.P.Pos(lp.header.Instrs[0].Pos()), "the only exits of the row loop are exhaustion and error returns", why)
}

func ruleC06EmptyList(c *Ctx) {
	c.Doc("c06.empty-list", "the all-aggregate classifier never classifies a select list with no items as all-aggregate: on the path with zero loop iterations it returns false")
	f := c.P.Func(modPath, "IsSelectAllAggregate")
	if f == nil {
		// by role: func(*Query) bool ranging over selectDefinition.Exprs
		for _, g := range c.P.pkgFuncs(modPath) {
			if g.Parent() == nil && g.Signature.Results().Len() == 1 && g.Signature.Results().At(0).Type().String() == "bool" && g.Signature.Params().Len() == 1 && shortType(g.Signature.Params().At(0).Type()) == "*Query" {
				f = g
			}
		}
	}
	if f == nil {
		c.Unknown("c06.empty-list", "IsSelectAllAggregate", "-", "anchor lost")
		return
	}
	key := c.P.funcKey(f)
	c.Fn(key)
	paths, err := WalkFunc(f, WalkCfg{MaxVisits: 2})
	if err != nil {
		c.Unknown("c06.empty-list", key, c.P.Pos(f.Pos()), err.Error())
		return
	}
	ok, why, n := true, "", 0
	for _, p := range paths {
		if p.Exit != "return" {
			continue
		}
		// zero iterations: no assertion of an element was performed
		iter := false
		for _, k := range p.Order {
			if kt := p.KeyTerm[k]; kt != nil && strings.Contains(kt.String(), "assertok[") {
				iter = true
			}
		}
		if iter {
			continue
		}
		n++
		if p.Ret[0].C == nil || isTrueC(p.Ret[0].C) {
			ok, why = false, "with an empty select list the classifier returns "+avString(p.Ret[0])+" (vacuous truth): every row set collapses to one row"
		}
	}
	if n == 0 {
		ok, why = false, "no zero-iteration path found"
	}
	c.Check(ok, "c06.empty-list", key, c.P.Pos(f.Pos()), fmt.Sprintf("%d zero-iteration paths return false", n), why)
}

func ruleC06BranchKinds(c *Ctx) {
	c.Doc("c06.branch-kinds", "the union builder applies no single-result type assertion to expr.Left / expr.Right (a chain of three branches nests a *Union there), and a *Union branch is handled: the builder can reach itself again through the statement dispatch")
	f, ep := c.unionFunc()
	if f == nil {
		c.Unknown("c06.branch-kinds", "BuildUnion", "-", "anchor lost")
		return
	}
	key := c.P.funcKey(f)
	ok, why := true, ""
	reach := c.P.reachableFrom(f)
	for g := range reach {
		if funcPkgPath(g) != modPath {
			continue
		}
		allInstrs(g, func(_ *ssa.BasicBlock, in ssa.Instruction) {
			ta, isTA := in.(*ssa.TypeAssert)
			if !isTA || ta.CommaOk {
				return
			}
			t := NewTB().Of(ta.X)
			if g == f && (fieldsRead(t, ep)["Left"] || fieldsRead(t, ep)["Right"]) {
				ok, why = false, "unchecked assertion "+shortType(ta.AssertedType)+" on a union branch at "+c.P.Pos(ta.Pos())+": a chained UNION panics"
			}
		})
	}
	// recursion through the dispatch
	rec := false
	cg := c.P.CallGraph()
	seen := map[*ssa.Function]bool{}
	var q []*ssa.Function
	if n := cg.Nodes[f]; n != nil {
		for _, e := range n.Out {
			q = append(q, e.Callee.Func)
		}
	}
	for len(q) > 0 {
		g := q[0]
		q = q[1:]
		if seen[g] || !c.P.InModule(g) {
			continue
		}
		seen[g] = true
		if g == f {
			rec = true
			break
		}
		if n := cg.Nodes[g]; n != nil {
			for _, e := range n.Out {
				q = append(q, e.Callee.Func)
			}
		}
	}
	if !rec {
		ok, why = false, why+" the builder cannot reach itself: a nested *Union branch is not handled"
	}
	c.Check(ok, "c06.branch-kinds", key, c.P.Pos(f.Pos()), "no unchecked assertion on the branches; nested unions recurse", strings.TrimSpace(why))
}

func (c *Ctx) distinctFunc() *ssa.Function {
	for _, g := range c.P.pkgFuncs(modPath) {
		if g.Parent() != nil || g.Signature.Params().Len() != 2 || shortType(g.Signature.Params().At(1).Type()) != "[]any" {
			continue
		}
		reads := false
		allInstrs(g, func(_ *ssa.BasicBlock, in ssa.Instruction) {
			if fa, ok := in.(*ssa.FieldAddr); ok && fieldName(fa.X.Type(), fa.Field) == "distinct" {
				reads = true
			}
		})
		if reads {
			c.Anchor("duplicate elimination", c.P.funcKey(g)+" "+c.P.Pos(g.Pos()))
			c.Fn(c.P.funcKey(g))
			return g
		}
	}
	return nil
}

func ruleC06DistinctLoop(c *Ctx) {
	c.Doc("c06.distinct-first", "duplicate elimination: without DISTINCT the rows are returned as they are; with it rows are visited in order, the fingerprint is a function of the whole row, a row whose fingerprint was seen is skipped without side effect, otherwise the same fingerprint is recorded and the row itself is appended exactly once")
	f := c.distinctFunc()
	if f == nil {
		c.Unknown("c06.distinct-first", "ExecDistinct", "-", "anchor lost: no (query, rows) function reads Query.distinct")
		return
	}
	key := c.P.funcKey(f)
	rows := f.Params[1]
	var lp *loopInfo
	for _, l := range rangeLoops(f) {
		if l.over == ssa.Value(rows) {
			lp = l
		}
	}
	if lp == nil {
		c.Unknown("c06.distinct-first", key, c.P.Pos(f.Pos()), "anchor lost: no loop over the rows parameter")
		return
	}
	var why []string
	// flag off => rows returned unchanged
	all, _ := WalkFunc(f, WalkCfg{MaxVisits: 1})
	sawOff := false
	for _, p := range all {
		for k, v := range p.Asg {
			kt := p.KeyTerm[k]
			if kt != nil && kt.Op == "field" && kt.Name == "distinct" && !isTrueC(v) && p.Exit == "return" {
				sawOff = true
				if !(p.Ret[0].T != nil && p.Ret[0].T.Op == "param" && p.Ret[0].T.Name == rows.Name()) {
					why = append(why, "without DISTINCT the function returns "+avString(p.Ret[0])+" instead of its rows")
				}
			}
		}
	}
	if !sawOff {
		why = append(why, "no path for DISTINCT off")
	}
	// flag on => no shortcut hands the rows back unexamined: every such return comes from the loop's accumulator
	for _, p := range all {
		on := false
		for k, v := range p.Asg {
			kt := p.KeyTerm[k]
			if kt != nil && kt.Op == "field" && kt.Name == "distinct" && isTrueC(v) {
				on = true
			}
		}
		if on && p.Exit == "return" && len(p.Ret) == 2 && p.Ret[1].Nil && p.Ret[0].T != nil && p.Ret[0].T.Op == "param" && p.Ret[0].T.Name == rows.Name() {
			why = append(why, "with DISTINCT a path returns the rows as they are, without looking for duplicates ("+p.String()+")")
		}
	}
	paths, err := WalkFrom(f, lp.body, lp.header, WalkCfg{StopAt: func(b *ssa.BasicBlock) bool { return b == lp.header }, MaxVisits: 1})
	if err != nil {
		c.Unknown("c06.distinct-first", key, c.P.Pos(f.Pos()), err.Error())
		return
	}
	nSeen, nNew := 0, 0
	for _, p := range paths {
		if p.Exit != "stop" {
			continue
		}
		var seenKey *Term
		var seenVal bool
		for k, v := range p.Asg {
			kt := p.KeyTerm[k]
			if kt != nil && kt.Op == "ext" && kt.Name == "1" && kt.Args[0].Op == "lookupok" {
				seenKey, seenVal = kt.Args[0].Args[1], isTrueC(v)
			}
			if kt != nil && kt.Op == "lookup" { // seen[fp] used directly as a boolean
				seenKey, seenVal = kt.Args[1], isTrueC(v)
			}
		}
		if seenKey == nil {
			why = append(why, "an iteration completes without consulting the set of fingerprints seen so far (a row is kept or dropped without being compared with earlier rows)")
			continue
		}
		// the fingerprint depends on the whole row
		wholeRow := func(t *Term) bool {
			return t.Contains(func(x *Term) bool {
				_, va, ok := fmtRendering(x)
				return ok && va.Op == "varargs" && len(va.Args) == 1 && elemOfLoop(va.Args[0], lp) && va.Args[0].Op != "lookup" && va.Args[0].Op != "field"
			})
		}
		// the rendering that is fingerprinted must be injective on JSON-like rows: the Go-syntax verb quotes strings,
		// names nil and brackets composites; %v / %s / %+v render `a:"1 b:2"` and `a:1 b:2` alike
		checkFmt := func(t *Term) {
			t.Walk(func(x *Term) bool {
				if fs, _, ok := fmtRendering(x); ok && fs.Op == "const" {
					if fs.Name != `"%#v"` {
						why = append(why, "the row is fingerprinted through the format "+fs.Name+", which is not injective (unquoted strings, <nil>, blank separators): rows that differ can be dropped as duplicates")
					}
				}
				return true
			})
		}
		checkFmt(seenKey)
		for _, e := range p.Effects {
			if (e.Kind == "call" || e.Kind == "store") && len(e.Args) > 0 {
				checkFmt(e.Args[len(e.Args)-1])
			}
		}
		fpOK := wholeRow(seenKey)
		if !fpOK {
			// hash object form: the key is a digest of a hasher that was fed the whole row's text on this path
			for _, e := range p.Effects {
				if e.Kind == "call" && e.Callee == "inv:Write" && len(e.Args) == 2 && wholeRow(e.Args[1]) && strings.Contains(seenKey.String(), e.Args[0].String()) {
					fpOK = true
				}
			}
		}
		if !fpOK {
			// array form: sum := sha256.Sum256(text of the row); key derived from sum[:] — the array cell was stored on this path
			for _, e := range p.Effects {
				if e.Kind == "store" && len(e.Args) == 2 && e.Args[0].Op == "alloc" && wholeRow(e.Args[1]) && strings.Contains(seenKey.String(), e.Args[0].String()) {
					fpOK = true
				}
			}
		}
		if !fpOK {
			why = append(why, "the fingerprint is not computed from the whole row: "+seenKey.String())
		}
		appends, records := 0, 0
		for _, e := range p.Effects {
			if e.Kind == "call" && e.Callee == "builtin:append" && len(e.Args) == 2 {
				appends++
				if !(e.Args[1].Op == "varargs" && len(e.Args[1].Args) == 1 && elemOfLoop(e.Args[1].Args[0], lp)) {
					why = append(why, "the appended value is not the row itself")
				}
			}
			if e.Kind == "mapupdate" {
				records++
				if e.Args[1].String() != seenKey.String() {
					why = append(why, "the recorded fingerprint differs from the one looked up")
				}
			}
		}
		if seenVal {
			nSeen++
			if appends != 0 || records != 0 {
				why = append(why, "a row whose fingerprint was already seen is still appended or recorded")
			}
		} else {
			nNew++
			if appends != 1 || records != 1 {
				why = append(why, fmt.Sprintf("a new row is appended %d times and recorded %d times (want 1 and 1)", appends, records))
			}
		}
	}
	if nSeen == 0 || nNew == 0 {
		why = append(why, fmt.Sprintf("iteration paths: seen=%d new=%d", nSeen, nNew))
	}
	c.Check(len(why) == 0, "c06.distinct-first", key, c.P.Pos(f.Pos()), fmt.Sprintf("seen=>skip (%d paths), new=>record+append once (%d paths), whole-row fingerprint", nSeen, nNew), strings.Join(uniq(why), "; "))
}

func ruleC06DistinctWiring(c *Ctx) {
	c.Doc("c06.distinct-wiring", "exec applies duplicate elimination to the projection's output (after SELECT, before ORDER BY and the window); BuildSelect sets query.distinct from the statement's Distinct flag")
	exec := c.P.Method(modPath, "Query", "exec")
	d := c.distinctFunc()
	if exec == nil || d == nil {
		c.Unknown("c06.distinct-wiring", "(*Query).exec", "-", "anchor lost")
		return
	}
	c.Fn("(*Query).exec")
	ok, why := false, "exec does not run duplicate elimination on the projected rows"
	tbd := NewTB()
	allInstrs(exec, func(_ *ssa.BasicBlock, in ssa.Instruction) {
		if call, isCall := in.(*ssa.Call); isCall && call.Common().StaticCallee() == d {
			arg := tbd.Of(call.Common().Args[1])
			if strings.Contains(arg.String(), "ExecSelect(") {
				ok, why = true, ""
			} else {
				why = "duplicate elimination receives " + arg.String() + ", not the projection's output"
			}
		}
	})
	c.Check(ok, "c06.distinct-wiring", "(*Query).exec/select-then-distinct", c.P.Pos(exec.Pos()), "ExecDistinct(query, ExecSelect(...))", why)
	bs := c.theFunc("select builder", "*sqlparser.Select", "BuildSelect")
	if bs == nil {
		c.Unknown("c06.distinct-wiring", "BuildSelect", "-", "anchor lost")
		return
	}
	ep := paramNameOfType(bs, "*sqlparser.Select")
	ok2, why2 := false, "BuildSelect never sets query.distinct"
	allInstrs(bs, func(_ *ssa.BasicBlock, in ssa.Instruction) {
		st, isSt := in.(*ssa.Store)
		if !isSt {
			return
		}
		if fa, isFA := st.Addr.(*ssa.FieldAddr); isFA && fieldName(fa.X.Type(), fa.Field) == "distinct" {
			v := tbd.Of(st.Val)
			if v.Op == "field" && v.Name == "Distinct" && v.Args[0].Op == "param" && v.Args[0].Name == ep {
				ok2, why2 = true, ""
			} else {
				why2 = "query.distinct is set from " + v.String()
			}
		}
	})
	c.Check(ok2, "c06.distinct-wiring", c.P.funcKey(bs)+"/distinct", c.P.Pos(bs.Pos()), "query.distinct = slct.Distinct", why2)
}

func init() { register("C06", ruleC06BranchWith); register("C07", ruleC06BranchWith) }

// ruleC06BranchWith: a union branch keeps its own WITH clause.
func ruleC06BranchWith(c *Ctx) {
	c.Doc("c06.branch-with", "union branches: the WITH clause installed on a branch before it is prepared is MergeWith(the union's WITH, the branch's own WITH) — never the union's WITH alone, which erases the branch's own CTEs (its FROM then resolves to nothing and the branch silently contributes no rows); MergeWith returns the other operand when one is nil and otherwise the outer CTEs followed by the branch's own")
	f, _ := c.unionFunc()
	if f == nil {
		c.Unknown("c06.branch-with", "BuildUnion", "-", "anchor lost")
		return
	}
	n := 0
	var why []string
	seen := map[*ssa.Function]bool{}
	var scan func(g *ssa.Function, depth int)
	scan = func(g *ssa.Function, depth int) {
		if seen[g] || depth > 2 {
			return
		}
		seen[g] = true
		allInstrs(g, func(_ *ssa.BasicBlock, in ssa.Instruction) {
			ci, ok := in.(ssa.CallInstruction)
			if !ok {
				return
			}
			cc := ci.Common()
			name := ""
			if cc.IsInvoke() {
				name = cc.Method.Name()
			} else if cal := cc.StaticCallee(); cal != nil {
				name = cal.Name()
				if c.P.InModule(cal) && cal.Parent() == nil {
					scan(cal, depth+1)
				}
			}
			if name != "SetWith" {
				return
			}
			n++
			// installed on every branch of that kind: the only conditions in front of the call are the arms of the
			// type switch over the branch statement (and error tests)
			for _, fc := range factsAt(ci.Block()) {
				cond := fc.cond
				for {
					u, isU := cond.(*ssa.UnOp)
					if !isU || u.Op != token.NOT {
						break
					}
					cond = u.X
				}
				if ex, isEx := cond.(*ssa.Extract); isEx {
					if _, isTA := ex.Tuple.(*ssa.TypeAssert); isTA {
						continue
					}
				}
				if bo, isBo := cond.(*ssa.BinOp); isBo && (isErrorT(bo.X.Type()) || isErrorT(bo.Y.Type())) {
					continue
				}
				why = append(why, "the WITH of the union reaches a branch only under the condition "+NewTB().Of(fc.cond).String()+" (at "+c.P.Pos(ci.Pos())+"): a branch that fails it (a nested union without a WITH of its own, say) never sees the CTEs of the chain and silently contributes no rows")
			}
			arg := cc.Args[len(cc.Args)-1]
			at := NewTB().Of(arg)
			a, isMerge := callArgs(at, "MergeWith")
			if !isMerge || len(a) != 2 {
				why = append(why, "a branch's WITH is set to "+at.String()+" at "+c.P.Pos(ci.Pos())+": the branch's own CTEs are erased")
				return
			}
			if !(a[0].Op == "param") || !(a[1].Op == "field" && a[1].Name == "With") {
				why = append(why, "MergeWith is not applied to (the union's WITH, the branch's own WITH): "+at.String())
			}
		})
	}
	scan(f, 0)
	if n == 0 {
		why = append(why, "no SetWith on the branches found")
	}
	if mw := c.P.Func(modPath, "MergeWith"); mw == nil {
		why = append(why, "anchor lost: MergeWith")
	} else {
		c.Fn("MergeWith")
		paths, err := WalkFunc(mw, WalkCfg{MaxVisits: 1})
		if err != nil {
			why = append(why, err.Error())
		}
		outer, own := mw.Params[0].Name(), mw.Params[1].Name()
		sawMerged := false
		for _, p := range paths {
			if p.Exit != "return" || len(p.Ret) != 1 {
				continue
			}
			outerNil, ownNil := false, false
			for k, v := range p.Asg {
				if x, isN := isNilTest(p.KeyTerm[k]); isN && x.Op == "param" && isTrueC(v) {
					if x.Name == outer {
						outerNil = true
					}
					if x.Name == own {
						ownNil = true
					}
				}
			}
			r := p.Ret[0].T
			switch {
			case outerNil:
				if r == nil || r.Op != "param" || r.Name != own {
					why = append(why, "with no outer WITH, MergeWith does not return the branch's own")
				}
			case ownNil:
				if r == nil || r.Op != "param" || r.Name != outer {
					why = append(why, "with no own WITH, MergeWith does not return the outer one")
				}
			default:
				if r != nil && r.Op == "param" {
					// outer == own shortcut
					continue
				}
				sawMerged = true
				// two appends onto the merged CTE list: outer's then own's
				var order []string
				for _, e := range p.Effects {
					if isAppendOf(e) && len(e.Args) == 2 {
						s := e.Args[1].String()
						switch {
						case strings.Contains(s, "p:"+outer) && strings.Contains(s, "CTEs"):
							order = append(order, "outer")
						case strings.Contains(s, "p:"+own) && strings.Contains(s, "CTEs"):
							order = append(order, "own")
						}
					}
				}
				if strings.Join(order, ",") != "outer,own" {
					why = append(why, "the merged clause does not hold the outer CTEs followed by the branch's own (appends: "+strings.Join(order, ",")+")")
				}
			}
		}
		if !sawMerged {
			why = append(why, "MergeWith never builds a merged clause")
		}
	}
	c.Check(len(why) == 0, "c06.branch-with", c.P.funcKey(f), c.P.Pos(f.Pos()), fmt.Sprintf("%d SetWith sites install MergeWith(union's, own)", n), strings.Join(uniq(why), "; "))
}

// fmtRendering: x renders values through a format: fmt.Sprintf(format, args...) or fmt.Appendf(dst, format, args...)
// (the same text as bytes). Returns the format and the variadic argument list.
func fmtRendering(x *Term) (format, args *Term, ok bool) {
	if a, isS := callArgs(x, "fmt.Sprintf"); isS && len(a) == 2 {
		return a[0], a[1], true
	}
	if a, isA := callArgs(x, "fmt.Appendf"); isA && len(a) == 3 {
		return a[1], a[2], true
	}
	return nil, nil, false
}

func init() { register("C06", ruleC06UnionClausesLast); register("C05", ruleC06UnionClausesLast) }

// ruleC06UnionClausesLast: the LIMIT / OFFSET / ORDER BY of a union apply to the combined result. A condition over two
// functions: the function that runs a branch reads the clause definitions of the union's query only if the union builder
// stores them after both branches have run (then it reads the "absent" defaults) -- and the other way round.
func ruleC06UnionClausesLast(c *Ctx) {
	c.Doc("c06.union-clauses-last", "the union's own LIMIT/OFFSET/ORDER BY apply to the combined result: either the functions that run a branch never read limitDefinition / offsetDefinition / orderByDefinition of the union's query, or the union builder calls the builders of those clauses only after every branch has been executed (a branch cut to the union's LIMIT loses rows that the de-duplication, the OFFSET or the ORDER BY of the union would have kept)")
	f := c.theFunc("union builder", "*sqlparser.Union", "BuildUnion")
	if f == nil {
		c.Unknown("c06.union-clauses-last", "BuildUnion", "-", "anchor lost")
		return
	}
	key := c.P.funcKey(f)
	c.Fn(key)
	// the calls of the union builder: clause builders (they store the definitions) and branch runners (everything else of
	// the module that is handed the union's Left / Right statement)
	type site struct {
		call *ssa.Call
		idx  int
	}
	var clause, branch []site
	ep := paramNameOfType(f, "*sqlparser.Union")
	tb := NewTB()
	for _, b := range f.Blocks {
		for i, in := range b.Instrs {
			call, ok := in.(*ssa.Call)
			if !ok || call.Common().StaticCallee() == nil || !c.P.InModule(call.Common().StaticCallee()) {
				continue
			}
			cal := call.Common().StaticCallee()
			stores := false
			allInstrs(cal, func(_ *ssa.BasicBlock, cin ssa.Instruction) {
				if st, isSt := cin.(*ssa.Store); isSt {
					if fa, isFA := st.Addr.(*ssa.FieldAddr); isFA {
						switch fieldName(fa.X.Type(), fa.Field) {
						case "limitDefinition", "offsetDefinition", "orderByDefinition":
							stores = true
						}
					}
				}
			})
			handsBranch := false
			for _, a := range call.Common().Args {
				fr := fieldsRead(tb.Of(a), ep)
				if fr["Left"] || fr["Right"] {
					handsBranch = true
				}
			}
			switch {
			case handsBranch:
				branch = append(branch, site{call, i})
			case stores:
				clause = append(clause, site{call, i})
			}
		}
	}
	if len(branch) == 0 || len(clause) == 0 {
		c.Unknown("c06.union-clauses-last", key, c.P.Pos(f.Pos()), fmt.Sprintf("anchor lost: %d branch executions and %d clause builders found in the union builder", len(branch), len(clause)))
		return
	}
	early := ""
	for _, cs := range clause {
		for _, bs := range branch {
			cb, bb := cs.call.Block(), bs.call.Block()
			if cb == bb && cs.idx < bs.idx || cb != bb && reaches(cb, bb) {
				early = calleeName(cs.call.Common()) + " at " + c.P.Pos(cs.call.Pos()) + " runs before the branch execution at " + c.P.Pos(bs.call.Pos())
			}
		}
	}
	// what the branch runners read of the query they are given
	reads := ""
	seen := map[*ssa.Function]bool{}
	for _, bs := range branch {
		for _, g := range withClosures(bs.call.Common().StaticCallee()) {
			if seen[g] {
				continue
			}
			seen[g] = true
			c.Fn(c.P.funcKey(g))
			allInstrs(g, func(_ *ssa.BasicBlock, in ssa.Instruction) {
				fa, ok := in.(*ssa.FieldAddr)
				if !ok {
					return
				}
				switch n := fieldName(fa.X.Type(), fa.Field); n {
				case "limitDefinition", "offsetDefinition", "orderByDefinition":
					// a read (not the store of a constructor)
					if fa.Referrers() != nil {
						for _, r := range *fa.Referrers() {
							if u, isU := r.(*ssa.UnOp); isU && u.Op == token.MUL {
								reads = c.P.funcKey(g) + " reads " + n + " at " + c.P.Pos(in.Pos())
							}
						}
					}
				}
			})
		}
	}
	why := ""
	if early != "" && reads != "" {
		why = early + ", and " + reads + ": every branch is cut (or ordered) by the union's own clause before the union combines, de-duplicates and windows the rows"
	}
	c.Check(why == "", "c06.union-clauses-last", key, c.P.Pos(f.Pos()), fmt.Sprintf("%d branch executions, %d clause builders: the branches do not see the union's LIMIT/OFFSET/ORDER BY", len(branch), len(clause)), why)
}
