package main

import (
	"go/types"
	"fmt"
	"go/constant"
	"go/token"
	"os"
	"strings"

	"golang.org/x/tools/go/ssa"
)

func init() {
	register("C14", ruleC14WaitBeforePost, ruleC14StrategyTable, ruleC14SlotRoundTrip, ruleC14NestedWaits, ruleC14Immediate,
		// goroutine discipline shared with C10/C13: Add before go, Done deferred, recover first
		ruleC10GoClosures, ruleC13CapturedVars)
	register("C20", ruleC20Cell, ruleC20SameMap, ruleC20OptionsShared, ruleC20Order, ruleC13FieldLocks,
		// SETVAR adds no column: the projection's Ommit arm (shared with C02)
		ruleC02Keys)
}

func ruleC14WaitBeforePost(c *Ctx) {
	c.Doc("c14.wait-before-post", "execAndPostProcess: wg.Wait() follows exec() on every path, also when exec failed (the calls it launched have completed when Exec returns); on the success path then every post-processor of query.postProcessors in order (an error of one is returned); (*Query).Exec returns only through it")
	c.NotDecidedClause("C14: equality of ASYNC and synchronous values under arbitrary latencies; exactly-once per row beyond once-per-evaluation of the select item (the item is evaluated once per row: c02.one-per-row)")
	f := c.P.Method(modPath, "Query", "execAndPostProcess")
	if f == nil {
		c.Unknown("c14.wait-before-post", "execAndPostProcess", "-", "anchor lost")
		return
	}
	key := "(*Query).execAndPostProcess"
	c.Fn(key)
	paths, err := WalkFunc(f, WalkCfg{MaxVisits: 2})
	if err != nil {
		c.Unknown("c14.wait-before-post", key, c.P.Pos(f.Pos()), err.Error())
		return
	}
	var why []string
	n := 0
	for _, p := range paths {
		if p.Exit != "return" || len(p.Ret) != 2 || !p.Ret[1].Nil {
			continue
		}
		n++
		iExec, iWait, iPost := -1, -1, -1
		for i, e := range p.Effects {
			if e.Kind != "call" {
				continue
			}
			switch {
			case strings.HasSuffix(e.Callee, ".exec"):
				iExec = i
			case strings.HasSuffix(e.Callee, "(*sync.WaitGroup).Wait"):
				if iWait < 0 {
					iWait = i
				}
			case e.Callee == "dyn":
				if iPost < 0 {
					iPost = i
				}
			}
		}
		if iExec < 0 || iWait < 0 || iWait < iExec {
			why = append(why, "a success path does not wait for the outstanding calls (wg.Wait) after exec")
		}
		if iPost >= 0 && iPost < iWait {
			why = append(why, "a post-processor runs before wg.Wait(): async slots may be read before they are written")
		}
		// result is exec's value
		if r := ext0(p.Ret[0].T); r == nil || !strings.HasSuffix(r.Name, ".exec") {
			why = append(why, "the success value is "+avString(p.Ret[0])+", not exec's result")
		}
	}
	if n == 0 {
		why = append(why, "no success path")
	}
	// the failure path of exec waits as well: the calls exec launched before it failed have completed when the error is returned
	for _, p := range paths {
		if p.Exit != "return" || len(p.Ret) != 2 || p.Ret[1].Nil {
			continue
		}
		// the error is exec's own
		if x := p.Ret[1].T; x == nil || x.Op != "ext" || !strings.HasSuffix(x.Args[0].Name, ".exec") {
			continue
		}
		waited := false
		for _, e := range p.Effects {
			if e.Kind == "call" && strings.HasSuffix(e.Callee, "(*sync.WaitGroup).Wait") {
				waited = true
			}
		}
		if !waited {
			why = append(why, "when exec fails the error is returned without waiting for the calls it had already launched: they are still running after Exec returned")
		}
	}
	// the post-processor loop ranges over query.postProcessors and returns a post-processor's error
	loopOK := false
	for _, l := range deepRangeLoops(f) {
		if t := l.over; t.Op == "field" && t.Name == "postProcessors" {
			loopOK = true
		}
	}
	if !loopOK {
		why = append(why, "no loop over query.postProcessors")
	}
	c.Check(len(why) == 0, "c14.wait-before-post", key, c.P.Pos(f.Pos()), fmt.Sprintf("%d success paths: exec, Wait, post-processors, exec's value", n), strings.Join(uniq(why), "; "))
	// Exec goes through it
	ex := c.P.Method(modPath, "Query", "Exec")
	if ex != nil {
		c.Fn("(*Query).Exec")
		okE := false
		allInstrs(ex, func(_ *ssa.BasicBlock, in ssa.Instruction) {
			if call, ok := in.(*ssa.Call); ok && call.Common().StaticCallee() == f {
				okE = true
			}
		})
		direct := false
		allInstrs(ex, func(_ *ssa.BasicBlock, in ssa.Instruction) {
			if call, ok := in.(*ssa.Call); ok && call.Common().StaticCallee() != nil && fnShort(call.Common().StaticCallee()) == "exec" {
				direct = true
			}
		})
		c.Check(okE && !direct, "c14.wait-before-post", "(*Query).Exec", c.P.Pos(ex.Pos()), "Exec runs execAndPostProcess (never exec directly)", "Exec does not go through execAndPostProcess: outstanding ASYNC calls are not awaited")
	}
}

type strategyFacts struct {
	paths int
}

func ruleC14StrategyTable(c *Ctx) {
	c.Doc("c14.strategy-table", "strategy dispatch (the function taking *sqlparser.FuncExpr), one row per qualifier: async/spin/spinasync on an immediate function return an error before evaluating arguments or spawning; otherwise arguments are evaluated on the query goroutine before the spawn, the user function is invoked exactly once inside one go closure, async and spinasync are counted in query.wg (Add(1) before go) and spin is not, async returns the address of the slot its closure writes, spin and spinasync return Ommit; once invokes the function only on a memo miss, stores the result under the same key before returning it, and calls nothing on a hit; the unqualified and scoped forms call it exactly once inline and return its results")
	f := c.theFunc("strategy dispatch", "*sqlparser.FuncExpr", "FunExpr")
	if f == nil {
		c.Unknown("c14.strategy-table", "FunExpr", "-", "anchor lost")
		return
	}
	key := c.P.funcKey(f)
	strat := []string{"async", "spin", "spinasync", "once", "global", "scoped", "other"}
	var sdom []constant.Value
	for _, s := range strat {
		sdom = append(sdom, constant.MakeString(s))
	}
	atoms := []Atom{
		{Name: "name", Dom: []constant.Value{constant.MakeString("await"), constant.MakeString("f")}, Match: func(t *Term) bool {
			return t.Op == "call" && strings.HasSuffix(t.Name, "Lowered") && strings.Contains(t.String(), ".Name")
		}},
		{Name: "strategy", Dom: sdom, Match: func(t *Term) bool {
			return t.Op == "call" && t.Name == "strings.ToLower" && strings.Contains(t.String(), ".Qualifier")
		}},
		{Name: "immediate", Dom: boolDom, Match: func(t *Term) bool { return t.Op == "call" && t.Name == "IsImmediateFunction" }},
		{Name: "registered", Dom: boolDom, Match: func(t *Term) bool {
			return t.Op == "ext" && t.Name == "1" && t.Args[0].Op == "lookupok" && strings.Contains(t.Args[0].Args[0].String(), "functions")
		}},
		{Name: "memoHit", Dom: boolDom, Match: func(t *Term) bool {
			return t.Op == "ext" && t.Name == "1" && t.Args[0].Op == "lookupok" && strings.Contains(t.Args[0].Args[0].String(), "singletonExecutions")
		}},
	}
	tb := BuildTable(f, atoms, false, func(cfg *WalkCfg) { cfg.MaxVisits = 2; cfg.MaxPaths = 20000 })
	if tb.Err != nil {
		c.Unknown("c14.strategy-table", key, c.P.Pos(f.Pos()), tb.Err.Error())
		return
	}
	isUserCall := func(e Effect) bool {
		if e.Kind != "call" || e.Callee != "dyn" || len(e.Args) == 0 {
			return false
		}
		return strings.Contains(e.Args[0].String(), "functions")
	}
	// per go-closure facts
	type cloFacts struct{ calls, minCalls, maxCalls int }
	closureCalls := func(fn *ssa.Function) (int, int) {
		ps, _ := WalkFunc(fn, WalkCfg{MaxVisits: 1})
		mn, mx := 1<<30, 0
		for _, p := range ps {
			if p.Exit != "return" && p.Exit != "panic" {
				continue
			}
			n := 0
			for _, e := range p.Effects {
				if e.Kind == "call" && e.Callee == "dyn" && len(e.Args) > 0 && (e.Args[0].Op == "freevar" || e.Args[0].Op == "load" || e.Args[0].Op == "field" || e.Args[0].Op == "param") && !strings.Contains(e.Args[0].String(), "errors") {
					n++
				}
			}
			if n < mn {
				mn = n
			}
			if n > mx {
				mx = n
			}
		}
		return mn, mx
	}
	rows := map[string][]string{}
	seenRow := map[string]int{}
	for _, p := range tb.Paths {
		if p.Exit != "return" || len(p.Ret) != 2 {
			continue
		}
		nm := tb.namesOnPath(p)
		if v, ok := nm["name"]; ok && constant.StringVal(v) == "await" {
			continue
		}
		if v, ok := nm["registered"]; ok && !isTrueC(v) {
			continue
		}
		sv, ok := nm["strategy"]
		if !ok {
			continue
		}
		s := constant.StringVal(sv)
		// failing argument evaluation is an error path of its own
		argErr := false
		for k, v := range p.Asg {
			if kt := p.KeyTerm[k]; kt != nil {
				if x, isN := isNilTest(kt); isN && isErrorType(x) && !isTrueC(v) {
					argErr = true
				}
			}
		}
		var nArgs, nUser, nAdd, nGo int
		iArgs, iGo, iAdd := -1, -1, -1
		var goFn *ssa.Function
		var goStmt *ssa.Go
		for i, e := range p.Effects {
			switch {
			case e.Kind == "call" && (strings.HasSuffix(e.Callee, "FuncArgReader")):
				nArgs++
				if iArgs < 0 {
					iArgs = i
				}
			case isUserCall(e):
				nUser++
			case e.Kind == "call" && strings.HasSuffix(e.Callee, "(*sync.WaitGroup).Add"):
				nAdd++
				iAdd = i
			case e.Kind == "go":
				nGo++
				iGo = i
				if g, isGo := e.Instr.(*ssa.Go); isGo {
					if mc, isMC := g.Call.Value.(*ssa.MakeClosure); isMC {
						goFn = mc.Fn.(*ssa.Function)
					} else if sc := g.Call.StaticCallee(); sc != nil && sc.Blocks != nil && c.P.InModule(sc) {
						// the body of the goroutine is a named function or a method of a record that carries what
						// the closure used to capture: `go call.deliver(&slot)`
						goFn, goStmt = sc, g
					}
				}
			}
		}
		add := func(msg string) { rows[s] = append(rows[s], msg) }
		imm, hasImm := nm["immediate"]
		switch s {
		case "async", "spin", "spinasync":
			if !hasImm {
				add("the immediate registry is not consulted")
				continue
			}
			if isTrueC(imm) {
				seenRow[s+"/immediate"]++
				if p.Ret[1].Nil || nArgs != 0 || nGo != 0 || nUser != 0 {
					add("an immediate function is not rejected before arguments are evaluated or a goroutine is started")
				}
				continue
			}
			if argErr {
				if p.Ret[1].Nil || nGo != 0 {
					add("a failing argument evaluation still spawns or is not reported")
				}
				continue
			}
			seenRow[s]++
			if nGo != 1 || nUser != 0 {
				add(fmt.Sprintf("the function is not run in exactly one goroutine (go statements=%d, inline calls=%d)", nGo, nUser))
				continue
			}
			if nArgs != 1 || iArgs > iGo {
				add("the arguments are not evaluated (once) on the query goroutine before the spawn")
			}
			if goFn != nil {
				mn, mx := closureCalls(goFn)
				if mn != 1 || mx != 1 {
					add(fmt.Sprintf("the goroutine invokes the function between %d and %d times (exactly once expected)", mn, mx))
				}
				// the closure uses the evaluated arguments, not the AST
				usesAST := false
				allInstrs(goFn, func(_ *ssa.BasicBlock, in ssa.Instruction) {
					if call, ok := in.(*ssa.Call); ok && call.Common().StaticCallee() != nil && strings.HasSuffix(call.Common().StaticCallee().Name(), "ArgReader") {
						usesAST = true
					}
				})
				if usesAST {
					add("the goroutine evaluates the arguments itself (rows would be read concurrently)")
				}
			}
			wantAdd := s != "spin"
			if wantAdd && !(nAdd == 1 && iAdd < iGo) {
				add("the call is not counted in query.wg before the goroutine starts (Exec may return before it completes)")
			}
			if !wantAdd && nAdd != 0 {
				add("SPIN is counted in query.wg (documented as fire-and-forget)")
			}
			if !p.Ret[1].Nil {
				add("returns an error on the success path")
			}
			r := p.Ret[0].T
			if s == "async" {
				// the address of a cell the closure stores to
				okSlot := false
				if r != nil && r.Op == "alloc" && goFn != nil {
					if a, isA := r.V.(*ssa.Alloc); isA {
						for _, st := range storesTo(a) {
							if st.Parent() == goFn {
								okSlot = true
							}
						}
						// the slot is handed to the goroutine's function as an argument: that parameter is stored through
						if goStmt != nil {
							for k, arg := range goStmt.Call.Args {
								if arg == ssa.Value(a) && k < len(goFn.Params) && goFn.Params[k].Referrers() != nil {
									for _, u := range *goFn.Params[k].Referrers() {
										if st, isSt := u.(*ssa.Store); isSt && st.Addr == ssa.Value(goFn.Params[k]) {
											okSlot = true
										}
									}
								}
							}
						}
					}
				}
				if !okSlot {
					add("ASYNC does not return the address of the slot its goroutine writes: " + termStr(r))
				}
			} else if !(p.Ret[0].C != nil && p.Ret[0].T != nil && p.Ret[0].T.Typ != nil && strings.HasSuffix(p.Ret[0].T.Typ.String(), "Ommit")) && !(r != nil && r.Typ != nil && strings.HasSuffix(r.Typ.String(), "Ommit")) {
				add(strings.ToUpper(s) + " does not return Ommit: it would add a column")
			}
		case "once":
			hit, hasHit := nm["memoHit"]
			if !hasHit {
				add("ONCE does not consult the memo")
				continue
			}
			if isTrueC(hit) {
				seenRow["once/hit"]++
				if nUser != 0 || nArgs != 0 || nGo != 0 {
					add("ONCE calls the function or evaluates arguments on a memo hit")
				}
				if r := ext0(p.Ret[0].T); r == nil || r.Op != "lookupok" {
					add("ONCE returns " + avString(p.Ret[0]) + " on a hit, not the memo value")
				}
				continue
			}
			if argErr {
				continue
			}
			// miss
			stored := false
			var storeKey, lookupKey string
			for k := range p.Asg {
				if tb.Seen[k] == "memoHit" {
					lookupKey = p.KeyTerm[k].Args[0].Args[1].String()
				}
			}
			userErr := false
			for _, e := range p.Effects {
				if e.Kind == "mapupdate" && strings.Contains(e.Args[0].String(), "singletonExecutions") {
					stored = true
					storeKey = e.Args[1].String()
				}
			}
			_ = userErr
			if p.Ret[1].Nil {
				seenRow["once/miss"]++
				if nUser != 1 {
					add(fmt.Sprintf("ONCE invokes the function %d times on a miss", nUser))
				}
				if !stored || storeKey != lookupKey {
					add("ONCE does not store the result under the key it looked up")
				}
			} else if stored {
				add("ONCE memoises a failed call")
			}
		case "scoped", "other":
			if argErr {
				continue
			}
			// `return function(...)` forwarding
			if nGo != 0 {
				add("the unqualified call spawns a goroutine")
			}
			if nUser == 1 && nArgs == 1 {
				seenRow[s]++
				r := ext0(p.Ret[0].T)
				if r == nil || r.Name != "dyn" {
					add("the unqualified call does not return the function's own results: " + avString(p.Ret[0]))
				}
			} else if p.Ret[1].Nil || nUser > 1 {
				add(fmt.Sprintf("the unqualified call invokes the function %d times", nUser))
			}
		}
	}
	for _, s := range []string{"async", "spin", "spinasync", "once", "scoped", "other"} {
		want := []string{s}
		switch s {
		case "async", "spin", "spinasync":
			want = []string{s, s + "/immediate"}
		case "once":
			want = []string{"once/hit", "once/miss"}
		}
		for _, w := range want {
			if seenRow[w] == 0 {
				rows[s] = append(rows[s], "no path for "+w)
			}
		}
		c.Check(len(rows[s]) == 0, "c14.strategy-table", key+"/"+s, c.P.Pos(f.Pos()), "row of the strategy table holds", strings.Join(uniq(rows[s]), "; "))
	}
}

func ruleC14SlotRoundTrip(c *Ctx) {
	c.Doc("c14.slot-roundtrip", "projection: when an item's value is an async slot (*any) a post-processor is registered on that path which dereferences that very slot (through nested slots) and stores the value into the same output map under the same key; the slot itself is stored under that key meanwhile")
	f := c.theFunc("projection", "*sqlparser.SelectExprs", "SelectExpr")
	if f == nil {
		c.Unknown("c14.slot-roundtrip", "SelectExpr", "-", "anchor lost")
		return
	}
	key := c.P.funcKey(f)
	// the closure registered when the value asserts to *any
	var post *ssa.Function
	var reg *ssa.MakeClosure
	allInstrs(f, func(b *ssa.BasicBlock, in ssa.Instruction) {
		mc, ok := in.(*ssa.MakeClosure)
		if !ok {
			return
		}
		// guarded by a successful assertion to *any
		for _, fc := range factsAt(b) {
			if ex, isEx := fc.cond.(*ssa.Extract); isEx && fc.truth {
				if ta, isTA := ex.Tuple.(*ssa.TypeAssert); isTA && ta.AssertedType.String() == "*any" || isTA && ta.AssertedType.String() == "*interface{}" {
					post, reg = mc.Fn.(*ssa.Function), mc
				}
			}
		}
	})
	if post == nil {
		c.Fail("c14.slot-roundtrip", key, c.P.Pos(f.Pos()), "no post-processor is registered for async slot values: the result would contain an unresolved *any")
		return
	}
	c.Fn(c.P.funcKey(post))
	var why []string
	// registered: appended to query.postProcessors
	appended := false
	if refs := reg.Referrers(); refs != nil {
		for _, r := range *refs {
			if st, ok := r.(*ssa.Store); ok {
				_ = st
				appended = true
			}
		}
	}
	if !appended {
		why = append(why, "the closure is created but not appended to query.postProcessors")
	}
	// in the post-processor (a function literal, or a method value of a record that carries what the literal captured):
	// a store row[name] = value where value derives from the slot, with the captured variables / the record's fields
	// resolved to the projection's own values
	ctb := NewTB()
	type store3 struct{ m, k, v *Term }
	var stores []store3
	deepInstrsTB(post, closureTB(reg, ctb), func(_ *ssa.Function, tb *TB, _ *ssa.BasicBlock, in ssa.Instruction) {
		if mu, ok := in.(*ssa.MapUpdate); ok {
			stores = append(stores, store3{tb.Of(mu.Map), tb.Of(mu.Key), tb.Of(mu.Value)})
		}
	})
	okStore := false
	for _, st := range stores {
		if !(strings.Contains(st.v.String(), "assertok[*any](") || strings.Contains(st.v.String(), "assertok[*interface{}](")) {
			continue
		}
		// what is stored is what the slot holds (a dereference on every arm), never the slot itself
		arms := []*Term{st.v}
		if st.v.Op == "phi" {
			arms = st.v.Args
		}
		deref := true
		for _, a := range arms {
			if a.Op != "load" {
				deref = false
			}
		}
		if deref {
			okStore = true
		} else {
			why = append(why, "the post-processor stores "+st.v.String()+": the slot itself (a pointer), not the value it holds")
		}
	}
	if !okStore {
		why = append(why, "the post-processor does not store the slot's value back into the output row")
	}
	// the slot itself is stored under the item's key meanwhile, and the post-processor writes the same key of the
	// same output map
	var immKey, immMap ssa.Value
	allInstrs(f, func(b *ssa.BasicBlock, in ssa.Instruction) {
		mu, ok := in.(*ssa.MapUpdate)
		if !ok || !reaches(reg.Block(), b) {
			return
		}
		if strings.Contains(NewTB().Of(mu.Value).String(), "ValueOf(") {
			immKey, immMap = mu.Key, mu.Map
		}
	})
	if immKey == nil {
		why = append(why, "the slot is not stored under the item's key while the call is outstanding")
	} else {
		kt, mt := ctb.Of(immKey).String(), ctb.Of(immMap).String()
		same := false
		for _, st := range stores {
			if st.k.String() == kt && st.m.String() == mt {
				same = true
			}
		}
		if !same && os.Getenv("GENQLCHECK_DEBUG") != "" {
			for _, st := range stores {
				fmt.Fprintf(os.Stderr, "slot-roundtrip: store m=%s k=%s v=%s\n   want m=%s k=%s\n", st.m, st.k, st.v, mt, kt)
			}
		}
		if !same {
			why = append(why, "the post-processor is not bound to the same key variable and output map as the immediate store")
		}
	}
	c.Check(len(why) == 0, "c14.slot-roundtrip", key, c.P.Pos(reg.Pos()), "slot stored under the key; post-processor derefs it into the same map and key", strings.Join(why, "; "))
}

// ruleC14NestedWaits: every nested execution chains the nested wait group into the parent.
func ruleC14NestedWaits(c *Ctx) {
	c.Doc("c07.nested-discipline", "every site that runs a nested query with exec() (derived table, row-scoped subquery, EXISTS) hands the nested post-processors to the parent and chains the nested wait group: parent.wg.Add(1) precedes a goroutine that waits for the nested group and then signals the parent; sites that use execAndPostProcess need neither")
	n := 0
	for _, f := range c.P.pkgFuncs(modPath) {
		if f.Parent() != nil {
			continue
		}
		var nested []*ssa.Call
		allInstrs(f, func(_ *ssa.BasicBlock, in ssa.Instruction) {
			if call, ok := in.(*ssa.Call); ok && call.Common().StaticCallee() != nil && fnShort(call.Common().StaticCallee()) == "exec" {
				// receiver is not the function's own receiver/parameter query (recursion on a copy counts as nested too)
				recv := NewTB().Of(call.Common().Args[0])
				if strings.Contains(recv.String(), "Prepare(") || strings.Contains(recv.String(), "CopyQuery(") {
					nested = append(nested, call)
				}
			}
		})
		for _, call := range nested {
			n++
			key := c.P.funcKey(f) + "/nested-exec"
			c.Fn(c.P.funcKey(f))
			recv := NewTB().Of(call.Common().Args[0]).String()
			okPost, okChain := false, false
			chainWhy := ""
			// (the chaining may live in a helper the evaluator calls: `query.waitFor(nested)`)
			deepInstrs(f, func(_ *ssa.Function, htb *TB, b *ssa.BasicBlock, in ssa.Instruction) {
				switch in := in.(type) {
				case *ssa.Call:
					if bi, ok := in.Common().Value.(*ssa.Builtin); ok && bi.Name() == "append" && len(in.Common().Args) == 2 {
						if strings.Contains(NewTB().Of(in.Common().Args[1]).String(), "("+recv+").postProcessors") {
							okPost = true
						}
					}
				case *ssa.Go:
					// the body of the goroutine: a closure, or a function / method of the module started directly
					var clo *ssa.Function
					if mc, ok := in.Call.Value.(*ssa.MakeClosure); ok {
						clo = mc.Fn.(*ssa.Function)
					} else if fn := in.Call.StaticCallee(); fn != nil && len(fn.Blocks) > 0 {
						clo = fn
					}
					if clo == nil {
						return
					}
					// the terms of the goroutine's values as the evaluator sees them: captured variables and parameters resolved
					var gtb *TB
					if mc, ok := in.Call.Value.(*ssa.MakeClosure); ok {
						gtb = closureTB(mc, htb)
					} else {
						gtb = NewTB()
						gtb.bind = map[*ssa.Parameter]*Term{}
						for i, pa := range clo.Params {
							if i < len(in.Call.Args) {
								gtb.bind[pa] = htb.Of(in.Call.Args[i])
							}
						}
					}
					direction, waited := "", ""
					waits, dones := false, false
					allInstrs(clo, func(_ *ssa.BasicBlock, cin ssa.Instruction) {
						var cc *ssa.CallCommon
						switch x := cin.(type) {
						case *ssa.Call:
							cc = x.Common()
						case *ssa.Defer:
							cc = x.Common()
						}
						if cc == nil {
							return
						}
						nm := calleeName(cc)
						// which group is waited for and which is signalled: the nested query's and the enclosing one's, not the reverse
						if strings.HasSuffix(nm, "(*sync.WaitGroup).Wait") {
							waits = true
							if len(cc.Args) == 1 {
								// (decided only where the group can be named: inside a helper the queries are its parameters, and the test
								// below -- the group that is signalled is not the nested query's -- is the one that still applies)
								waited = gtb.Of(cc.Args[0]).String()
							}
						}
						if strings.HasSuffix(nm, "(*sync.WaitGroup).Done") {
							dones = true
							if len(cc.Args) == 1 && strings.Contains(gtb.Of(cc.Args[0]).String(), recv) {
								direction = "the goroutine signals the nested query's own wait group, not the enclosing query's"
							}
							if len(cc.Args) == 1 && waited != "" && gtb.Of(cc.Args[0]).String() == waited {
								direction = "the goroutine waits for and signals one and the same wait group"
							}
						}
					})
					if waits && dones && direction == "" {
						okChain = true
					}
					if direction != "" {
						chainWhy = direction
					}
				}
			})
			var why []string
			// must-pass-through: on every path from the nested exec to a successful return the chaining goroutine is started
			paths, werr := WalkFrom(f, call.Block(), nil, WalkCfg{MaxVisits: 1, MaxPaths: 3000})
			if werr != nil {
				why = append(why, werr.Error())
			}
			fei := errIdx(f)
			for _, p := range paths {
				if p.Exit != "return" || fei < 0 || !p.Ret[fei].Nil {
					continue
				}
				passed, chained, handed := false, false, false
				for _, e := range p.Effects {
					if e.Kind == "call" && e.Instr == ssa.Instruction(call) {
						passed = true
					}
					if !passed {
						continue
					}
					if e.Kind == "go" {
						chained = true
					}
					if e.Kind == "call" && e.Callee == "builtin:append" && len(e.Args) == 2 && strings.Contains(e.Args[1].String(), "postProcessors") {
						handed = true
					}
				}
				if passed && !chained {
					why = append(why, "a success path after the nested exec skips the wait-group chaining (under "+p.String()+")")
				}
				if passed && !handed {
					why = append(why, "a success path after the nested exec does not hand over the nested post-processors")
				}
			}
			if !okPost {
				why = append(why, "the nested query's post-processors are not handed to the parent")
			}
			if !okChain {
				why = append(why, "the nested wait group is not chained into the parent's (an ASYNC call inside the nested query may still be running when Exec returns)"+map[bool]string{true: ": " + chainWhy, false: ""}[chainWhy != ""])
			}
			c.Check(len(why) == 0, "c07.nested-discipline", key, c.P.Pos(call.Pos()), "post-processors handed over; nested wait group chained", strings.Join(why, "; "))
		}
	}
	if n < 1 {
		c.Unknown("c07.nested-discipline", "nested-exec-sites", "-", fmt.Sprintf("only %d nested exec sites found (EXISTS expected; derived tables and subqueries run to completion, c12.exec-callers)", n))
	}
}

// ruleC14Immediate: the registry predicate and the registration table.
func ruleC14Immediate(c *Ctx) {
	c.Doc("c14.immediate-registry", "IsImmediateFunction(name) is true exactly when the lower-cased name is in immediateFunctions; RegisterImmediateFunction registers the function and appends the lower-cased name; the aggregates, setvar/getvar, raise/raise_when and the other order- or row-sensitive built-ins are registered immediate")
	f := c.P.Func(modPath, "IsImmediateFunction")
	if f == nil {
		c.Unknown("c14.immediate-registry", "IsImmediateFunction", "-", "anchor lost")
		return
	}
	c.Fn("IsImmediateFunction")
	paths, err := WalkFunc(f, WalkCfg{MaxVisits: 2})
	ok, why := err == nil, ""
	nT, nF := 0, 0
	for _, p := range paths {
		if p.Exit != "return" {
			continue
		}
		eq := false
		for k, v := range p.Asg {
			kt := p.KeyTerm[k]
			if kt != nil && kt.Op == "bin" && kt.Name == "==" && strings.Contains(kt.String(), "strings.ToLower(p:") && strings.Contains(kt.String(), "immediateFunctions") && isTrueC(v) {
				eq = true
			}
		}
		if p.Ret[0].C == nil {
			// library form: return slices.Contains(immediateFunctions, strings.ToLower(name))
			if a, isLib := callArgs(p.Ret[0].T, "slices.Contains"); isLib && len(a) == 2 && strings.Contains(a[0].String(), "immediateFunctions") && strings.HasPrefix(a[1].String(), "strings.ToLower(p:") && len(p.Order) == 0 {
				nT++
				nF++
				continue
			}
			ok, why = false, "returns "+avString(p.Ret[0])
			continue
		}
		if isTrueC(p.Ret[0].C) {
			nT++
			if !eq {
				ok, why = false, "returns true without a match in immediateFunctions"
			}
		} else {
			nF++
			if eq {
				ok, why = false, "returns false although the name matched"
			}
		}
	}
	if nT == 0 || nF == 0 {
		ok, why = false, fmt.Sprintf("true paths=%d false paths=%d", nT, nF)
	}
	c.Check(ok, "c14.immediate-registry", "IsImmediateFunction", c.P.Pos(f.Pos()), "true iff the lower-cased name is listed", why)
	for _, name := range []string{"sum", "avg", "min", "max", "count", "setvar", "getvar", "raise", "raise_when"} {
		fn, imm := c.registered(name)
		c.Check(fn != nil && imm, "c14.immediate-registry", "registered:"+name, "-", "registered as an immediate function", name+" is not registered as an immediate function: ASYNC/SPIN would be accepted for it")
	}
}

// ---- C20 -------------------------------------------------------------------------------------

func ruleC20Cell(c *Ctx) {
	c.Doc("c20.cell", "the functions registered as setvar / getvar: setvar guards arity 2, performs exactly one map update on options.vars with key = TextOf(args[0]) (the decimal text, the same conversion getvar uses) and value args[1], and returns Ommit (no column); getvar guards arity 1, looks the same key conversion up in options.vars and returns the found value, NULL when absent")
	c.NotDecidedClause("C20: register semantics over concrete histories; behaviour when variables are not enabled (nil map)")
	set, _ := c.registered("setvar")
	get, _ := c.registered("getvar")
	if set == nil || get == nil {
		c.Unknown("c20.cell", "setvar/getvar", "-", "anchor lost: setvar/getvar are not registered")
		return
	}
	// the name of a register is the decimal text of the argument: TextOf(args[k]). The %v text writes a float64 from a
	// million up with an exponent, so that SETVAR(id, …) with a numeric id column and GETVAR('1000000') named two
	// different registers (and the caller's map held the value under "1e+06")
	keyConv := func(t *Term, idx string) bool {
		a, ok := callArgs(t, "TextOf")
		return ok && len(a) == 1 && a[0].Op == "index" && a[0].Args[0].Op == "param" && a[0].Args[1].Name == idx
	}
	{
		c.Fn(c.P.funcKey(set))
		paths, _ := WalkFunc(set, WalkCfg{MaxVisits: 1})
		var why []string
		if !guardFirst(set, 2) {
			why = append(why, "setvar does not guard its arity (2) first")
		}
		n := 0
		for _, p := range paths {
			if p.Exit != "return" || !p.Ret[1].Nil {
				continue
			}
			n++
			ups := 0
			for _, e := range p.Effects {
				if e.Kind == "mapupdate" {
					ups++
					if !(e.Args[0].Op == "field" && e.Args[0].Name == "vars") {
						why = append(why, "setvar writes "+e.Args[0].String()+", not options.vars")
					}
					if !keyConv(e.Args[1], "0") {
						why = append(why, "setvar's key is not the decimal text (TextOf) of args[0]: "+e.Args[1].String())
					}
					if !(e.Args[2].Op == "index" && e.Args[2].Args[0].Op == "param" && e.Args[2].Args[1].Name == "1") {
						why = append(why, "setvar stores "+e.Args[2].String()+", not args[1]")
					}
				}
			}
			if ups != 1 {
				why = append(why, fmt.Sprintf("setvar performs %d map updates on its success path", ups))
			}
			if t := p.Ret[0].T; t == nil || t.Typ == nil || !strings.HasSuffix(t.Typ.String(), "Ommit") {
				why = append(why, "setvar does not return Ommit: it would add a column")
			}
		}
		if n == 0 {
			why = append(why, "setvar has no success path")
		}
		c.Check(len(why) == 0, "c20.cell", "registered:setvar="+c.P.funcKey(set), c.P.Pos(set.Pos()), "vars[text(args[0])] = args[1], once, Ommit", strings.Join(uniq(why), "; "))
	}
	{
		c.Fn(c.P.funcKey(get))
		var why []string
		if !guardFirst(get, 1) {
			why = append(why, "getvar does not guard its arity (1) first")
		}
		atoms := []Atom{{Name: "found", Dom: boolDom, Match: func(t *Term) bool {
			return t.Op == "ext" && t.Name == "1" && t.Args[0].Op == "lookupok" && t.Args[0].Args[0].Op == "field" && t.Args[0].Args[0].Name == "vars"
		}}}
		tb := BuildTable(get, atoms, true)
		nF, nA := 0, 0
		for _, p := range tb.SuccessPaths() {
			fv, has := tb.namesOnPath(p)["found"]
			if !has {
				continue
			}
			for k := range p.Asg {
				if tb.Seen[k] == "found" {
					if !keyConv(p.KeyTerm[k].Args[0].Args[1], "0") {
						why = append(why, "getvar's key is not the decimal text (TextOf) of args[0]")
					}
				}
			}
			for _, e := range p.Effects {
				if e.Kind == "mapupdate" {
					why = append(why, "getvar writes to a map")
				}
			}
			if isTrueC(fv) {
				nF++
				r := ext0(p.Ret[0].T)
				if r == nil || r.Op != "lookupok" {
					why = append(why, "getvar returns "+avString(p.Ret[0])+" for a stored key, not the stored value")
				}
			} else {
				nA++
				if !p.Ret[0].Nil {
					why = append(why, "getvar returns "+avString(p.Ret[0])+" for a key that was never set (NULL expected)")
				}
			}
		}
		if nF == 0 && nA == 0 {
			// the plain look-up `return vars[text(args[0])], nil`: a key that was never set reads as the zero value of the
			// map's element type, the nil interface — NULL (refactoring round 11, funcs11-r8)
			nPlain := 0
			for _, p := range tb.SuccessPaths() {
				r := p.Ret[0].T
				if r != nil && r.Op == "lookup" && len(r.Args) == 2 && r.Args[0].Op == "field" && r.Args[0].Name == "vars" {
					if _, isIface := r.Typ.Underlying().(*types.Interface); r.Typ != nil && isIface {
						nPlain++
						if !keyConv(r.Args[1], "0") {
							why = append(why, "getvar's key is not the decimal text (TextOf) of args[0]")
						}
						for _, e := range p.Effects {
							if e.Kind == "mapupdate" {
								why = append(why, "getvar writes to a map")
							}
						}
						continue
					}
				}
				why = append(why, "getvar returns "+avString(p.Ret[0])+", not the stored value")
			}
			if nPlain == 0 {
				why = append(why, fmt.Sprintf("found paths=%d absent paths=%d", nF, nA))
			}
		} else if nF == 0 || nA == 0 {
			why = append(why, fmt.Sprintf("found paths=%d absent paths=%d", nF, nA))
		}
		c.Check(len(why) == 0, "c20.cell", "registered:getvar="+c.P.funcKey(get), c.P.Pos(get.Pos()), "vars[text(args[0])] or NULL", strings.Join(uniq(why), "; "))
	}
}

func ruleC20SameMap(c *Ctx) {
	c.Doc("c20.same-map", "WithVars stores the caller's map itself into Options.vars (no copy), and no other store to Options.vars exists: after Exec the caller's map holds the last value written for each key and a later query given the same map observes it")
	n := 0
	ok, why := true, ""
	for _, f := range c.P.ModFuncs {
		allInstrs(f, func(_ *ssa.BasicBlock, in ssa.Instruction) {
			st, isSt := in.(*ssa.Store)
			if !isSt {
				return
			}
			fa, isFA := st.Addr.(*ssa.FieldAddr)
			if !isFA || fieldName(fa.X.Type(), fa.Field) != "vars" || !isNamedType(fa.X.Type(), modPath, "Options") {
				return
			}
			n++
			c.Fn(c.P.funcKey(f))
			// value must be the enclosing option constructor's parameter (captured)
			v := st.Val
			isCallerMap := false
			if fv, isFV := v.(*ssa.FreeVar); isFV && f.Parent() != nil {
				for i, x := range f.FreeVars {
					if x == fv {
						// binding in the parent
						allInstrs(f.Parent(), func(_ *ssa.BasicBlock, pin ssa.Instruction) {
							if mc, isMC := pin.(*ssa.MakeClosure); isMC && mc.Fn == f && i < len(mc.Bindings) {
								if _, isP := mc.Bindings[i].(*ssa.Parameter); isP {
									isCallerMap = true
								}
							}
						})
					}
				}
			}
			if _, isP := v.(*ssa.Parameter); isP {
				isCallerMap = true
			}
			// captured by reference: a load of a free variable bound to a cell that only ever holds the parameter
			if ld, isLd := v.(*ssa.UnOp); isLd && f.Parent() != nil {
				if fv, isFV := ld.X.(*ssa.FreeVar); isFV {
					for i, x := range f.FreeVars {
						if x != fv {
							continue
						}
						allInstrs(f.Parent(), func(_ *ssa.BasicBlock, pin ssa.Instruction) {
							if mc, isMC := pin.(*ssa.MakeClosure); isMC && mc.Fn == f && i < len(mc.Bindings) {
								if cell, isA := mc.Bindings[i].(*ssa.Alloc); isA {
									all := true
									sts := storesTo(cell)
									for _, s2 := range sts {
										if _, isP := s2.Val.(*ssa.Parameter); !isP {
											all = false
										}
									}
									if all && len(sts) > 0 {
										isCallerMap = true
									}
								}
							}
						})
					}
				}
			}
			if !isCallerMap {
				ok, why = false, "Options.vars is set to "+NewTB().Of(v).String()+" in "+c.P.funcKey(f)+" (a copy or another map): the caller's map no longer observes the writes"
			}
		})
	}
	if n == 0 {
		ok, why = false, "no store to Options.vars found (WithVars lost)"
	}
	c.Check(ok, "c20.same-map", "Options.vars", "-", fmt.Sprintf("%d stores, each the caller's own map", n), why)
}

func ruleC20Order(c *Ctx) {
	c.Doc("c20.order", "evaluation order is program order: setvar and getvar are registered immediate (the strategy table rejects ASYNC/SPIN for them: c14.strategy-table); the argument reader, the select-item loop and the row loops range over slices (never maps) and append in order; no go statement lies on the path from the row loop to an immediate function's invocation")
	var why []string
	for _, n := range []string{"setvar", "getvar"} {
		if fn, imm := c.registered(n); fn == nil || !imm {
			why = append(why, n+" is not registered immediate")
		}
	}
	// argument reader: ranges over its slice parameter, appends unwrapped values in order
	ar := c.P.Func(modPath, "FuncArgReader")
	if ar == nil {
		why = append(why, "FuncArgReader not found")
	} else {
		c.Fn("FuncArgReader")
		if len(mapRangeNexts(ar)) != 0 || len(rangeLoops(ar)) != 1 {
			why = append(why, "the argument reader does not evaluate its arguments in one in-order slice loop")
		}
		allInstrs(ar, func(_ *ssa.BasicBlock, in ssa.Instruction) {
			if _, isGo := in.(*ssa.Go); isGo {
				why = append(why, "the argument reader starts goroutines")
			}
		})
	}
	// select-item loop and row loop are slice loops
	if f := c.P.Func(modPath, "SelectExpr"); f != nil {
		okLoop := false
		for _, l := range rangeLoops(f) {
			if t := NewTB().Of(l.over); t.Op == "field" && t.Name == "Exprs" {
				okLoop = true
			}
		}
		if !okLoop {
			why = append(why, "the select list is not evaluated by an in-order loop over Exprs")
		}
	}
	c.Check(len(why) == 0, "c20.order", "evaluation-order", "-", "immediate registration; in-order slice loops for arguments, select items and rows", strings.Join(why, "; "))
}

// ruleC20OptionsShared: nested statements evaluate with the very Options object of the enclosing query.
func ruleC20OptionsShared(c *Ctx) {
	c.Doc("c20.options-shared", "variables (and constants, callbacks) live in the Options object: Prepare stores its options parameter itself into the new query (no copy), every call of Prepare in the module passes the enclosing query's options, and query copies carry the same pointer: a GETVAR/SETVAR inside a subquery, EXISTS, derived table, CTE or union branch sees the same register file")
	prep := c.P.Func(modPath, "Prepare")
	if prep == nil {
		c.Unknown("c20.options-shared", "Prepare", "-", "anchor lost")
		return
	}
	c.Fn("Prepare")
	op := paramNameOfType(prep, "*Options")
	ok, why, n := true, "", 0
	// (the allocation may sit in a constructor helper Prepare hands its options to)
	deepInstrs(prep, func(_ *ssa.Function, tb *TB, _ *ssa.BasicBlock, in ssa.Instruction) {
		st, isSt := in.(*ssa.Store)
		if !isSt {
			return
		}
		fa, isFA := st.Addr.(*ssa.FieldAddr)
		if !isFA || fieldName(fa.X.Type(), fa.Field) != "options" || !isNamedType(fa.X.Type(), modPath, "Query") {
			return
		}
		n++
		if vt := tb.Of(st.Val); !(vt.Op == "param" && vt.Name == op) {
			ok, why = false, "Prepare stores "+vt.String()+" into the new query's options instead of its options parameter: nested statements get a different register file"
		}
	})
	if n == 0 {
		ok, why = false, "Prepare does not set the new query's options"
	}
	c.Check(ok, "c20.options-shared", "Prepare", c.P.Pos(prep.Pos()), "q.options = options (the parameter itself)", why)
	// call sites
	k := 0
	for _, f := range c.P.pkgFuncs(modPath) {
		allInstrs(f, func(_ *ssa.BasicBlock, in ssa.Instruction) {
			call, isCall := in.(*ssa.Call)
			if !isCall || call.Common().StaticCallee() != prep {
				return
			}
			k++
			t := NewTB().Of(call.Common().Args[2])
			good := t.Op == "field" && t.Name == "options"
			c.Check(good, "c20.options-shared", fmt.Sprintf("%s/Prepare#%d", c.P.funcKey(f), k), c.P.Pos(call.Pos()), "passes the enclosing query's options", "a nested statement is prepared with "+t.String()+" instead of the enclosing query's options")
		})
	}
	if k < 4 {
		c.Unknown("c20.options-shared", "Prepare/call-sites", "-", fmt.Sprintf("only %d call sites of Prepare found", k))
	}
}

func init() {
	register("C14", ruleC14JoinSidesAdopted)
	register("C13", ruleC14JoinSidesAdopted)
	register("C12", ruleC14JoinSidesAdopted)
}

// ruleC14JoinSidesAdopted: what the sides of a join launched belongs to the joining query.
func ruleC14JoinSidesAdopted(c *Ctx) {
	c.Doc("c14.join-sides-adopted", "join builder (BuildJoin): each side is built on a copy of the query; on every success path the copy's post-processors are appended to the query's and the copy's wait group is chained into the query's (query.wg.Add(1) before a goroutine that waits for the copy and then calls query.wg.Done) — otherwise the ASYNC/SPINASYNC calls of a derived table used as a join side are neither awaited nor resolved")
	f := c.P.Func(modPath, "BuildJoin")
	cq := c.P.Func(modPath, "CopyQuery")
	if f == nil || cq == nil {
		c.Unknown("c14.join-sides-adopted", "BuildJoin", "-", "anchor lost")
		return
	}
	c.Fn("BuildJoin")
	// the side copies
	var sides []*ssa.Call
	allInstrs(f, func(_ *ssa.BasicBlock, in ssa.Instruction) {
		if call, ok := in.(*ssa.Call); ok && call.Common().StaticCallee() == cq {
			sides = append(sides, call)
		}
	})
	if len(sides) < 2 {
		c.Unknown("c14.join-sides-adopted", "BuildJoin", c.P.Pos(f.Pos()), fmt.Sprintf("%d side copies found (2 expected)", len(sides)))
		return
	}
	paths, err := WalkFunc(f, WalkCfg{MaxVisits: 1, MaxPaths: 6000})
	if err != nil {
		c.Unknown("c14.join-sides-adopted", "BuildJoin", c.P.Pos(f.Pos()), err.Error())
		return
	}
	mentions := func(t *Term, side *ssa.Call, field string) bool {
		return t != nil && t.Contains(func(x *Term) bool {
			return x.Op == "field" && x.Name == field && len(x.Args) == 1 && x.Args[0].V == ssa.Value(side)
		})
	}
	var why []string
	n := 0
	for _, p := range paths {
		if p.Exit != "return" || len(p.Ret) != 1 || !p.Ret[0].Nil {
			continue
		}
		n++
		for i, side := range sides {
			adopted, chained := false, false
			for _, e := range p.Effects {
				if e.Kind == "call" && e.Callee == "builtin:append" && len(e.Args) == 2 && strings.Contains(e.Args[0].String(), "(p:"+paramNameOfType(f, "*Query")+").postProcessors") && mentions(e.Args[1], side, "postProcessors") {
					adopted = true
				}
				if e.Kind == "go" {
					if g, ok := e.Instr.(*ssa.Go); ok {
						mc, isMC := g.Call.Value.(*ssa.MakeClosure)
						if lit, isFn := g.Call.Value.(*ssa.Function); isFn && lit.Parent() != nil {
							// a function literal that captures nothing (everything it needs is passed as an argument)
							mc, isMC = &ssa.MakeClosure{Fn: lit}, true
						}
						if isMC {
							waits, done := false, false
							allInstrs(mc.Fn.(*ssa.Function), func(_ *ssa.BasicBlock, in ssa.Instruction) {
								ci, isCall := in.(ssa.CallInstruction)
								if !isCall {
									return
								}
								name := calleeName(ci.Common())
								if strings.HasSuffix(name, "sync.WaitGroup).Wait") {
									// which captured variable: the free variable bound to this side
									at := NewTB().Of(ci.Common().Args[0]).String()
									// ... or an element of a variadic parameter of the helper that holds the goroutine (`waitFor(nested ...*Query)`):
									// the wait is made for every element of a range over the whole slice, and the call of the helper in the
									// builder stores this side into the variadic array
									if varargsHoldSide(ci.Common().Args[0], mc, f, side) {
										waits = true
									}
									// ... or the parameter of the function literal that receives this side as the go statement's argument
									for pi, prm := range mc.Fn.(*ssa.Function).Params {
										if pi < len(g.Call.Args) && (strings.Contains(at, "p:"+prm.Name()+")") || strings.Contains(at, "(p:"+prm.Name()+")") || strings.Contains(at, "p:"+prm.Name()+".")) {
											arg := g.Call.Args[pi]
											if u, isU := arg.(*ssa.UnOp); isU && u.Op == token.MUL && cellHolds(u.X, side) {
												waits = true
											}
											if arg == ssa.Value(side) {
												waits = true
											}
										}
									}
									for bi, bnd := range mc.Bindings {
										fvn := mc.Fn.(*ssa.Function).FreeVars[bi].Name()
										if strings.Contains(at, "fv:"+fvn) || strings.Contains(at, "freevar:"+fvn) || strings.Contains(at, fvn) {
											if bnd == ssa.Value(side) || cellHolds(bnd, side) {
												waits = true
											}
										}
									}
								}
								if strings.HasSuffix(name, "sync.WaitGroup).Done") {
									done = true
								}
							})
							if waits && done {
								chained = true
							}
						}
					}
				}
			}
			if !adopted {
				why = append(why, fmt.Sprintf("the post-processors of side %d are not handed to the query: an ASYNC column of a derived table on that side is never resolved", i+1))
			}
			if !chained {
				why = append(why, fmt.Sprintf("the wait group of side %d is not chained into the query's: its outstanding calls are not awaited before Exec returns", i+1))
			}
		}
	}
	if n == 0 {
		why = append(why, "no success path")
	}
	c.Check(len(why) == 0, "c14.join-sides-adopted", "BuildJoin", c.P.Pos(f.Pos()), fmt.Sprintf("%d success paths adopt both sides' post-processors and wait groups", n), strings.Join(uniq(why), "; "))
}

// cellHolds: the captured cell's only stores are the given value.
func cellHolds(cell ssa.Value, v ssa.Value) bool {
	al, ok := cell.(*ssa.Alloc)
	if !ok || al.Referrers() == nil {
		return false
	}
	n, all := 0, true
	for _, r := range *al.Referrers() {
		if st, isSt := r.(*ssa.Store); isSt && st.Addr == ssa.Value(al) {
			n++
			if st.Val != v {
				all = false
			}
		}
	}
	return n > 0 && all
}

func init() {
	register("C14", ruleC14NestedFailureWaits)
	register("C13", ruleC14NestedFailureWaits)
}

// ruleC14NestedFailureWaits: a nested query that fails has finished what it launched.
func ruleC14NestedFailureWaits(c *Ctx) {
	c.Doc("c14.nested-failure-waits", "every site that runs a nested query with exec() (derived table, row-scoped subquery, EXISTS): on the path on which exec's error is returned, the nested query's wait group is awaited first — the ASYNC/SPINASYNC calls the nested query launched before it failed have completed when the error surfaces")
	exec := c.P.Method(modPath, "Query", "exec")
	if exec == nil {
		c.Unknown("c14.nested-failure-waits", "(*Query).exec", "-", "anchor lost")
		return
	}
	n := 0
	for _, f := range c.P.ModFuncs {
		if len(f.TypeArgs()) > 0 || fnShort(f) == "execAndPostProcess" {
			continue
		}
		var sites []*ssa.Call
		allInstrs(f, func(_ *ssa.BasicBlock, in ssa.Instruction) {
			if call, ok := in.(*ssa.Call); ok && call.Common().StaticCallee() == exec {
				sites = append(sites, call)
			}
		})
		for _, site := range sites {
			n++
			key := c.P.funcKey(f) + "/nested-exec-failure"
			paths, err := WalkFrom(f, site.Block(), nil, WalkCfg{MaxVisits: 1, MaxPaths: 4000, NoInline: true})
			if err != nil {
				c.Unknown("c14.nested-failure-waits", key, c.P.Pos(site.Pos()), err.Error())
				continue
			}
			ok, why, k := true, "", 0
			for _, p := range paths {
				if p.Exit != "return" {
					continue
				}
				failed := false
				for key2, v := range p.Asg {
					if x, isN := isNilTest(p.KeyTerm[key2]); isN && x.Op == "ext" && x.Name == "1" && x.Args[0].V == ssa.Value(site) && !isTrueC(v) {
						failed = true
					}
				}
				// any other failure exit behind the nested exec (a result of the wrong shape, say) counts too: the nested
				// query ran, its calls may still be running
				if ei := errIdx(f); ei >= 0 && ei < len(p.Ret) && !p.Ret[ei].Nil && p.Ret[ei].NonNil {
					failed = true
				}
				if !failed {
					continue
				}
				k++
				waited := false
				seenSite := false
				for _, e := range p.Effects {
					if e.Instr == ssa.Instruction(site) {
						seenSite = true
					}
					if seenSite && e.Kind == "call" && strings.HasSuffix(e.Callee, "(*sync.WaitGroup).Wait") && len(e.Args) == 1 && strings.Contains(e.Args[0].String(), ".wg") {
						waited = true
					}
				}
				if !waited {
					ok, why = false, "the nested query's error is returned without awaiting the calls it had launched"
				}
			}
			if k == 0 {
				ok, why = false, "no failure path of the nested exec found"
			}
			c.Check(ok, "c14.nested-failure-waits", key, c.P.Pos(site.Pos()), fmt.Sprintf("%d failure paths await the nested wait group", k), why)
		}
	}
	if n < 1 {
		c.Unknown("c14.nested-failure-waits", "sites", "-", fmt.Sprintf("only %d nested exec sites found", n))
	}
}

func init() { register("C14", ruleC14AwaitWaits); register("C13", ruleC14AwaitWaits) }

// ruleC14AwaitWaits: AWAIT(expr) delivers a value that is complete.
func ruleC14AwaitWaits(c *Ctx) {
	c.Doc("c14.await-waits", "AWAIT: the post-processor that evaluates the argument (after the query's own wait) awaits the query's wait group again on its success path before it hands the value over — the argument itself may launch ASYNC calls (AWAIT(ASYNC.f(x))), which nobody else would wait for")
	f := c.theFunc("strategy dispatch", "*sqlparser.FuncExpr", "FunExpr")
	if f == nil {
		c.Unknown("c14.await-waits", "FunExpr", "-", "anchor lost")
		return
	}
	n := 0
	for _, g := range funcValuesCreatedIn(f) {
		evaluates := false
		allInstrs(g, func(_ *ssa.BasicBlock, in ssa.Instruction) {
			if call, ok := in.(*ssa.Call); ok && call.Common().StaticCallee() != nil && call.Common().StaticCallee().Name() == "FuncArgReader" {
				evaluates = true
			}
		})
		// the await post-processor: a func() error closure that evaluates the arguments
		if !evaluates || g.Signature.Params().Len() != 0 || g.Signature.Results().Len() != 1 || g.Signature.Results().At(0).Type().String() != "error" {
			continue
		}
		n++
		key := c.P.funcKey(g)
		paths, err := WalkFunc(g, WalkCfg{MaxVisits: 1, NoInline: true})
		if err != nil {
			c.Unknown("c14.await-waits", key, c.P.Pos(g.Pos()), err.Error())
			continue
		}
		ok, why, k := true, "", 0
		for _, p := range paths {
			if p.Exit != "return" || len(p.Ret) != 1 {
				continue
			}
			if p.Ret[0].Nil {
				k++
			}
			// (failure paths as well: the arguments that were read before one of them was refused may have launched calls)
			iEval, iWait := -1, -1
			for i, e := range p.Effects {
				if e.Kind == "call" && e.Callee == "FuncArgReader" {
					iEval = i
				}
				if e.Kind == "call" && strings.HasSuffix(e.Callee, "(*sync.WaitGroup).Wait") {
					iWait = i
				}
			}
			if p.Ret[0].Nil && (iEval < 0 || iWait < iEval) {
				ok, why = false, "the AWAIT post-processor hands its value over without awaiting the calls its argument launched: AWAIT(ASYNC.f(x)) yields NULL and races with the call"
			}
			if !p.Ret[0].Nil && iEval >= 0 && iWait < iEval {
				ok, why = false, "the AWAIT post-processor returns an error of its arguments without awaiting the calls the arguments launched: with AWAIT(ASYNC.f(x), RAISE('x')) Exec returns while f is still running"
			}
		}
		if k == 0 {
			ok, why = false, "no success path"
		}
		c.Check(ok, "c14.await-waits", key, c.P.Pos(g.Pos()), fmt.Sprintf("%d success paths: evaluate, then wait", k), why)
	}
	if n == 0 {
		c.Unknown("c14.await-waits", "FunExpr", c.P.Pos(f.Pos()), "anchor lost: no post-processor closure that evaluates the arguments")
	}
}

func init() {
	register("C14", ruleC14DrainAfterRun)
	register("C12", ruleC14DrainAfterRun)
	// a post-processor left in the list writes, on the next Exec, into rows another goroutine may be reading
	register("C13", ruleC14DrainAfterRun)
}

// ruleC14DrainAfterRun: pending post-processors are only ever dropped after they have run.
func ruleC14DrainAfterRun(c *Ctx) {
	c.Doc("c14.drain-after-run", "the list of pending post-processors of an existing query (the closures that put the delivered value of an ASYNC call in place of its slot, also those adopted from derived tables and join sides when the statement was built) is emptied only behind the loop that runs them, in the same function: a reset in a deferred function, on an error path or ahead of the loop throws away post-processors that never ran, and a later successful Exec of the same query returns rows that still hold `*any` slots. Constructors that give a new query its first, empty list are exempt")
	n := 0
	for _, f := range c.P.ModFuncs {
		if len(f.Blocks) == 0 {
			continue
		}
		k := 0
		allInstrs(f, func(b *ssa.BasicBlock, in ssa.Instruction) {
			st, ok := in.(*ssa.Store)
			if !ok {
				return
			}
			fa, ok := st.Addr.(*ssa.FieldAddr)
			if !ok || !isNamedType(fa.X.Type(), modPath, "Query") || fieldName(fa.X.Type(), fa.Field) != "postProcessors" {
				return
			}
			if _, fresh := fa.X.(*ssa.Alloc); fresh {
				return // a query under construction
			}
			v := NewTB().Of(st.Val)
			reset := v.Op == "const" && v.Name == "nil" || isFreshSliceTerm(v) || v.Op == "make" || v.Op == "slice" && len(v.Args) == 4 && v.Args[2].String() == "c:0"
			if !reset {
				return
			}
			n++
			k++
			key := fmt.Sprintf("%s/reset#%d", c.P.funcKey(f), k)
			if f.Parent() != nil {
				c.Fail("c14.drain-after-run", key, c.P.Pos(st.Pos()), "the pending post-processors are dropped by a function literal (a deferred clean-up runs on the error path too, where they never ran)")
				return
			}
			after := false
			for _, dl := range deepRangeLoops(f) {
				if !(dl.over.Op == "field" && dl.over.Name == "postProcessors") {
					continue
				}
				if dl.fn == f {
					if dl.lp.exit.Dominates(b) {
						after = true
					}
					continue
				}
				// the loop lives in a helper: the reset follows the call of that helper
				allInstrs(f, func(cb *ssa.BasicBlock, cin ssa.Instruction) {
					if call, isCall := cin.(*ssa.Call); isCall && call.Common().StaticCallee() == dl.fn {
						if cb != b && cb.Dominates(b) {
							after = true
						}
						if cb == b {
							for _, x := range b.Instrs {
								if x == ssa.Instruction(call) {
									after = true
								}
								if x == ssa.Instruction(st) {
									break
								}
							}
						}
					}
				})
			}
			if !after {
				// detach form: the list is taken out of the query first (`pending := query.postProcessors;
				// query.postProcessors = fresh`) and the loop runs the copy that was taken — nothing is thrown away unrun
				for _, lp := range rangeLoops(f) {
					ld, isLd := lp.over.(*ssa.UnOp)
					if !isLd || ld.Op != token.MUL {
						continue
					}
					fa2, isFA := ld.X.(*ssa.FieldAddr)
					if !isFA || fieldName(fa2.X.Type(), fa2.Field) != "postProcessors" {
						continue
					}
					loadedBefore := false
					if ld.Block() == b {
						for _, x := range b.Instrs {
							if x == ssa.Instruction(ld) {
								loadedBefore = true
							}
							if x == ssa.Instruction(st) {
								break
							}
						}
					} else if ld.Block().Dominates(b) {
						loadedBefore = true
					}
					if loadedBefore && b.Dominates(lp.header) {
						after = true
					}
				}
				// ... the detached copy may be run by a helper: `list := query.postProcessors; query.postProcessors = fresh;
				// run(list)`
				for _, dl := range deepRangeLoops(f) {
					if dl.fn == f || !(dl.over.Op == "field" && dl.over.Name == "postProcessors") {
						continue
					}
					allInstrs(f, func(cb *ssa.BasicBlock, cin ssa.Instruction) {
						call, isCall := cin.(*ssa.Call)
						if !isCall || call.Common().StaticCallee() != dl.fn {
							return
						}
						behind := cb != b && b.Dominates(cb)
						if cb == b {
							seenStore := false
							for _, x := range b.Instrs {
								if x == ssa.Instruction(st) {
									seenStore = true
								}
								if x == ssa.Instruction(call) && seenStore {
									behind = true
								}
							}
						}
						if !behind {
							return
						}
						for _, a := range call.Call.Args {
							ld, isLd := a.(*ssa.UnOp)
							if !isLd || ld.Op != token.MUL {
								continue
							}
							fa2, isFA := ld.X.(*ssa.FieldAddr)
							if !isFA || fieldName(fa2.X.Type(), fa2.Field) != "postProcessors" {
								continue
							}
							before := ld.Block() != b && ld.Block().Dominates(b)
							if ld.Block() == b {
								for _, x := range b.Instrs {
									if x == ssa.Instruction(ld) {
										before = true
									}
									if x == ssa.Instruction(st) {
										break
									}
								}
							}
							if before {
								after = true
							}
						}
					})
				}
			}
			c.Check(after, "c14.drain-after-run", key, c.P.Pos(st.Pos()), "behind the loop that runs the post-processors (or the list is detached and the detached copy is run)", "the pending post-processors are dropped at a point that is not behind the loop that runs them")
		})
	}
	if n == 0 {
		c.Unknown("c14.drain-after-run", "resets", "-", "anchor lost: nothing empties the list of post-processors (exec's early run is expected to)")
	}
	// run once: the entry that runs a query to completion leaves no post-processor behind that already ran (or whose
	// rows were never handed out). They capture the rows of that execution; kept in the list, the next Exec of the same
	// Query runs them again — writing into rows the caller already owns and re-launching the calls behind AWAIT.
	post := c.P.Method(modPath, "Query", "execAndPostProcess")
	if post == nil {
		c.Unknown("c14.drain-after-run", "(*Query).execAndPostProcess/run-once", "-", "anchor lost")
		return
	}
	c.Fn("(*Query).execAndPostProcess")
	paths, err := WalkFunc(post, WalkCfg{MaxVisits: 2, MaxPaths: 4000})
	if err != nil {
		c.Unknown("c14.drain-after-run", "(*Query).execAndPostProcess/run-once", c.P.Pos(post.Pos()), err.Error())
		return
	}
	var why []string
	nRet := 0
	for _, p := range paths {
		if p.Exit != "return" || len(p.Ret) != 2 {
			continue
		}
		ran, cleared := false, false
		for _, e := range p.Effects {
			if e.Kind == "call" && e.Callee == "dyn" && len(e.Args) == 1 && strings.Contains(e.Args[0].String(), "postProcessors") {
				ran = true
			}
			if e.Kind == "store" && len(e.Args) == 2 && e.Args[0].Op == "field" && e.Args[0].Name == "postProcessors" {
				cleared = true
			}
		}
		nRet++
		switch {
		case p.Ret[1].Nil && !cleared:
			why = append(why, "a successful run returns with the post-processors it ran still in the query's list")
		case !p.Ret[1].Nil && ran && !cleared:
			why = append(why, "a run that failed in a post-processor leaves the ones that already ran in the list")
		}
	}
	if nRet == 0 {
		why = append(why, "no return path")
	}
	c.Check(len(why) == 0, "c14.drain-after-run", "(*Query).execAndPostProcess/run-once", c.P.Pos(post.Pos()), "the post-processors of an execution are out of the list when it returns", strings.Join(uniq(why), "; ")+": a second Exec of the same Query runs them again (it rewrites rows already handed out, and AWAIT launches the earlier rows' calls again)")
}

// varargsHoldSide: recv is (a field of) an element read by a range over the whole of a slice that is a parameter of the
// function holding the goroutine (captured by the literal), and a call of that function in the builder f stores side into the
// array of that variadic argument.
func varargsHoldSide(recv ssa.Value, mc *ssa.MakeClosure, f *ssa.Function, side ssa.Value) bool {
	v := recv
	var ia *ssa.IndexAddr
	for i := 0; i < 6 && ia == nil; i++ {
		switch x := v.(type) {
		case *ssa.FieldAddr:
			v = x.X
		case *ssa.UnOp:
			v = x.X
		case *ssa.IndexAddr:
			ia = x
		default:
			return false
		}
	}
	if ia == nil {
		return false
	}
	if _, why := fullRangeIndex(ia); why != "" {
		return false
	}
	// the slice: a load of a captured cell (or the captured value) bound to a parameter of the helper
	sl := ia.X
	if u, ok := sl.(*ssa.UnOp); ok {
		sl = u.X
	}
	fv, ok := sl.(*ssa.FreeVar)
	if !ok {
		return false
	}
	lit, ok := mc.Fn.(*ssa.Function)
	if !ok || lit.Parent() == nil {
		return false
	}
	helper := lit.Parent()
	var bound ssa.Value
	for i, x := range lit.FreeVars {
		if x == fv && i < len(mc.Bindings) {
			bound = mc.Bindings[i]
		}
	}
	var prm *ssa.Parameter
	switch b := bound.(type) {
	case *ssa.Parameter:
		prm = b
	case *ssa.Alloc:
		for _, st := range storesTo(b) {
			if p, ok := st.Val.(*ssa.Parameter); ok && len(storesTo(b)) == 1 {
				prm = p
			}
		}
	}
	if prm == nil || prm.Parent() != helper {
		return false
	}
	pi := -1
	for i, p := range helper.Params {
		if p == prm {
			pi = i
		}
	}
	found := false
	allInstrs(f, func(_ *ssa.BasicBlock, in ssa.Instruction) {
		ci, ok := in.(ssa.CallInstruction)
		if !ok || ci.Common().StaticCallee() != helper || pi < 0 || pi >= len(ci.Common().Args) {
			return
		}
		arr, ok := ci.Common().Args[pi].(*ssa.Slice)
		if !ok {
			return
		}
		al, ok := arr.X.(*ssa.Alloc)
		if !ok || al.Referrers() == nil {
			return
		}
		for _, r := range *al.Referrers() {
			ea, ok := r.(*ssa.IndexAddr)
			if !ok || ea.Referrers() == nil {
				continue
			}
			for _, r2 := range *ea.Referrers() {
				if st, ok := r2.(*ssa.Store); ok {
					if st.Val == side {
						found = true
					}
					if u, isU := st.Val.(*ssa.UnOp); isU && u.Op == token.MUL && cellHolds(u.X, side) {
						found = true
					}
				}
			}
		}
	})
	return found
}
