package main

import (
	"fmt"
	"go/ast"
	"go/token"
	"go/types"
	"sort"
	"strings"

	"golang.org/x/tools/go/ssa"
)

// Rules about the Go language itself (round 9): constructs whose meaning depends on the dynamic type of a value of the
// data, which the type checker accepts and which fail only for one kind of value.
//
// go.iface-compare — `==` / `!=` between two interface values panics ("comparing uncomparable type") when both hold
// the same dynamic type and that type is a map, a slice or a function; a map keyed by an interface type panics the same
// way on a look-up or a store ("hash of unhashable type"). The rows of this library hold map[string]any and []any
// everywhere, so such a comparison of two values of the data fails exactly for objects and arrays — every scalar
// input, which is what a test uses, goes through. Added after round 9 (a "skip the repeat of the item before it"
// shortcut in Distinct: `item == data[index-1]`).
func init() {
	for _, id := range []string{"C03", "C06", "C09", "C10", "C18", "C20"} {
		registerLate(id, ruleGoIfaceCompare)
	}
}

// acceptedIfaceCompare: the functions of the pinned tree that compare two interface values of the data, each with the
// reason why the site is accepted (confirmed by reading). A helper that only these functions call is accepted with them.
var acceptedIfaceCompare = map[string]string{
	"ExecGroupBy": "grouping keys are compared with Go's != ; a key that is an object or an array panics and the recover of Exec (c10.entry-recover) returns the panic as an error: GROUP BY refuses such a key, it does not mis-partition (C03 lists the equality of keys as not decided)",
}

// strictlyComparable: a value of type t never panics when compared (no interface inside, which could hold a map).
func strictlyComparable(t types.Type) bool {
	switch u := t.Underlying().(type) {
	case *types.Basic:
		return u.Kind() != types.UntypedNil
	case *types.Pointer, *types.Chan:
		return true
	case *types.Struct:
		for i := 0; i < u.NumFields(); i++ {
			if !strictlyComparable(u.Field(i).Type()) {
				return false
			}
		}
		return true
	case *types.Array:
		return strictlyComparable(u.Elem())
	}
	return false
}

func isIfaceType(t types.Type) bool {
	_, ok := t.Underlying().(*types.Interface)
	return ok
}

func isErrorIface(t types.Type) bool {
	n, ok := t.(*types.Named)
	return ok && n.Obj().Pkg() == nil && n.Obj().Name() == "error"
}

// holdsComparable: the interface value v is known to hold a strictly comparable dynamic type (or nil) on every path.
func holdsComparable(v ssa.Value, depth int) bool {
	if depth > 6 {
		return false
	}
	switch x := v.(type) {
	case *ssa.Const:
		return true // nil
	case *ssa.MakeInterface:
		return strictlyComparable(x.X.Type())
	case *ssa.ChangeInterface:
		return holdsComparable(x.X, depth+1)
	case *ssa.Phi:
		for _, e := range x.Edges {
			if e == v {
				continue
			}
			if !holdsComparable(e, depth+1) {
				return false
			}
		}
		return true
	}
	return false
}

func ruleGoIfaceCompare(c *Ctx) {
	c.Doc("go.iface-compare", "no == / != between two interface values of the data, and no map keyed by an interface type, unless one side is known to hold a comparable dynamic type (a scalar made into an interface on every path, nil, two error values): the comparison panics when both hold a map or a slice, which is what every object and array of a row is; the sites of the pinned tree that do compare are an enumerated table with the reason each is accepted")
	// over the functions reachable from the ones this property's rules analyse (a helper nobody calls breaks nothing)
	reach := c.reachableFromAnalysed()
	var fns []*ssa.Function
	for _, f := range c.P.ModFuncs {
		if len(f.Blocks) > 0 && strings.HasPrefix(funcPkgPath(f), modPath) {
			r := f
			if o := r.Origin(); o != nil {
				r = o
			}
			for r.Parent() != nil {
				r = r.Parent()
			}
			if reach[r] {
				fns = append(fns, f)
			}
		}
	}
	sort.Slice(fns, func(i, j int) bool { return c.P.funcKey(fns[i]) < c.P.funcKey(fns[j]) })
	// the accepted root of a function: itself, its enclosing function (a closure), or — for a helper the tables do not
	// know — every static caller's accepted root
	var acceptedRoot func(f *ssa.Function, d int) (string, bool)
	acceptedRoot = func(f *ssa.Function, d int) (string, bool) {
		if f == nil || d > 3 {
			return "", false
		}
		if o := f.Origin(); o != nil {
			f = o
		}
		for f.Parent() != nil {
			f = f.Parent()
		}
		if why, ok := acceptedIfaceCompare[funcName(f)]; ok && !isUnknownHelper(f) {
			return why, true
		}
		if !isUnknownHelper(f) {
			return "", false
		}
		node := c.P.CallGraph().Nodes[f]
		if node == nil || len(node.In) == 0 {
			return "", false
		}
		why := ""
		for _, e := range node.In {
			w, ok := acceptedRoot(e.Caller.Func, d+1)
			if !ok {
				return "", false
			}
			why = w
		}
		return why, true
	}
	seenPos := map[string]bool{}
	count := map[string]int{}
	n, inventory := 0, 0
	for _, f := range fns {
		fk := c.P.funcKey(f)
		if o := f.Origin(); o != nil {
			fk = c.P.funcKey(o)
		}
		allInstrs(f, func(_ *ssa.BasicBlock, in ssa.Instruction) {
			var pos token.Pos
			kind, why := "", ""
			safe := false
			switch x := in.(type) {
			case *ssa.BinOp:
				if x.Op != token.EQL && x.Op != token.NEQ {
					return
				}
				if !isIfaceType(x.X.Type()) || !isIfaceType(x.Y.Type()) {
					return
				}
				if _, isC := x.X.(*ssa.Const); isC {
					return
				}
				if _, isC := x.Y.(*ssa.Const); isC {
					return
				}
				if isErrorIface(x.X.Type()) && isErrorIface(x.Y.Type()) {
					return
				}
				pos, kind = x.Pos(), "compare"
				safe = holdsComparable(x.X, 0) || holdsComparable(x.Y, 0)
				why = "two interface values are compared with " + x.Op.String() + " and neither is known to hold a comparable dynamic type: the comparison panics when both hold an object (map[string]any) or an array ([]any)"
			case *ssa.Lookup:
				m, ok := x.X.Type().Underlying().(*types.Map)
				if !ok || !isIfaceType(m.Key()) {
					return
				}
				pos, kind = x.Pos(), "key-lookup"
				safe = holdsComparable(x.Index, 0)
				why = "a map keyed by an interface type is read under a key that is not known to hold a comparable dynamic type: hashing an object or an array panics"
			case *ssa.MapUpdate:
				m, ok := x.Map.Type().Underlying().(*types.Map)
				if !ok || !isIfaceType(m.Key()) {
					return
				}
				pos, kind = x.Pos(), "key-store"
				safe = holdsComparable(x.Key, 0)
				why = "a map keyed by an interface type is written under a key that is not known to hold a comparable dynamic type: hashing an object or an array panics"
			default:
				return
			}
			p := c.P.Pos(pos)
			if seenPos[p] {
				return
			}
			seenPos[p] = true
			id := fk + "/" + kind
			count[id]++
			n++
			c.Fn(fk)
			construct := fmt.Sprintf("%s#%d", id, count[id])
			if safe {
				c.Pass("go.iface-compare", construct, p, "one side holds a comparable dynamic type on every path: the comparison cannot panic")
				return
			}
			if acc, ok := acceptedRoot(f, 0); ok {
				inventory++
				c.Pass("go.iface-compare", construct, p, "accepted site: "+acc)
				return
			}
			c.Fail("go.iface-compare", construct, p, why)
		})
	}
	if n == 0 {
		c.PassTrivial("go.iface-compare", "module", "-", "the module compares no two interface values and keys no map by an interface type")
	}
}

// go.addr-overwritten — a pointer to a local variable is kept (stored into another variable, a field, a map or a
// slice) and the variable itself is assigned again afterwards: whoever reads through the pointer sees the new value.
// The shape of the slip: `r := '"'; hold = &r` (a private copy per quote) "simplified" into one `r` declared in front
// of the loop, assigned at the top of every round, and `hold = &r` — *hold is now always the byte being read. Each
// half is behaviour-preserving alone (a fresh r per round; a pointer to a variable nobody assigns again). Added after
// round 9 (FindArrayIndex). Decided on SSA: for every local variable that lives in a cell (go/ssa Alloc) and whose
// address is stored or merged into another variable (Store of the address, a phi edge, a map update), no whole-variable
// store to the cell is reachable from that point. Addresses handed to calls (json.Unmarshal(data, &v)) and variables
// captured by function literals are not counted: the first is not kept, the second is shared on purpose.
func init() {
	for _, id := range []string{"C01", "C02", "C03", "C04", "C05", "C06", "C07", "C08", "C09", "C10", "C11", "C12", "C13", "C14", "C15", "C16", "C17", "C18", "C19", "C20"} {
		registerLate(id, ruleGoAddrOverwritten)
	}
}

func ruleGoAddrOverwritten(c *Ctx) {
	c.Doc("go.addr-overwritten", "no local variable whose address has been stored or merged into another variable, a field, a map or a slice is assigned again on a path from that point: a reader through the kept pointer would see the later value (go/ssa cells, CFG reachability; addresses passed to calls and variables captured by function literals are not counted; the functions reachable from the ones this property's rules analyse)")
	reach := c.reachableFromAnalysed()
	n, kept := 0, 0
	var fns []*ssa.Function
	for _, f := range c.P.ModFuncs {
		if len(f.Blocks) == 0 || !strings.HasPrefix(funcPkgPath(f), modPath) || len(f.TypeArgs()) > 0 {
			continue
		}
		r := f
		for r.Parent() != nil {
			r = r.Parent()
		}
		if reach[r] {
			fns = append(fns, f)
		}
	}
	sort.Slice(fns, func(i, j int) bool { return c.P.funcKey(fns[i]) < c.P.funcKey(fns[j]) })
	for _, f := range fns {
		n++
		// blocks reachable from a block (one step or more)
		// (a path that enters the block of the variable's own declaration makes a new variable: `x := ...` in a loop
		// body is one cell per round, and every use of a cell is dominated by its declaration)
		reachFrom := func(start []*ssa.BasicBlock, declared *ssa.BasicBlock) map[*ssa.BasicBlock]bool {
			seen := map[*ssa.BasicBlock]bool{}
			work := append([]*ssa.BasicBlock{}, start...)
			for len(work) > 0 {
				b := work[len(work)-1]
				work = work[:len(work)-1]
				if seen[b] || b == declared {
					continue
				}
				seen[b] = true
				work = append(work, b.Succs...)
			}
			return seen
		}
		idxOf := func(in ssa.Instruction) int {
			for i, x := range in.Block().Instrs {
				if x == in {
					return i
				}
			}
			return -1
		}
		for _, b := range f.Blocks {
			for _, in := range b.Instrs {
				a, ok := in.(*ssa.Alloc)
				if !ok || a.Referrers() == nil {
					continue
				}
				var stores []*ssa.Store
				type point struct {
					b     *ssa.BasicBlock
					after int // instruction index the address is kept at; -1: at the end of b (phi edge)
					what  string
				}
				var keeps []point
				for _, ref := range *a.Referrers() {
					switch r := ref.(type) {
					case *ssa.Store:
						if r.Addr == ssa.Value(a) {
							stores = append(stores, r)
						}
						if r.Val == ssa.Value(a) {
							keeps = append(keeps, point{r.Block(), idxOf(r), "stored at " + c.P.Pos(r.Pos())})
						}
					case *ssa.Phi:
						for i, e := range r.Edges {
							if e == ssa.Value(a) {
								keeps = append(keeps, point{r.Block().Preds[i], -1, "assigned to another variable (" + r.Comment + ")"})
							}
						}
					case *ssa.MapUpdate:
						if r.Key == ssa.Value(a) || r.Value == ssa.Value(a) {
							keeps = append(keeps, point{r.Block(), idxOf(r), "put into a map at " + c.P.Pos(r.Pos())})
						}
					}
				}
				if len(keeps) == 0 || len(stores) == 0 {
					continue
				}
				kept++
				bad := ""
				for _, k := range keeps {
					after := reachFrom(k.b.Succs, a.Block())
					for _, st := range stores {
						sb := st.Block()
						same := sb == k.b && k.after >= 0 && idxOf(st) > k.after
						if same || after[sb] {
							bad = fmt.Sprintf("the address of `%s` is %s and the variable is assigned again at %s: a reader through the kept pointer sees that later value, not the one the variable had when its address was taken", a.Comment, k.what, c.P.Pos(st.Pos()))
						}
					}
				}
				fk := c.P.funcKey(f)
				construct := fk + "/" + a.Comment
				c.Check(bad == "", "go.addr-overwritten", construct, c.P.Pos(a.Pos()), "the variable is not assigned again once its address has been kept", bad)
			}
		}
	}
	c.PassTrivial("go.addr-overwritten", "module", "-", fmt.Sprintf("%d functions examined, %d local variables whose address is kept", n, kept))
}

// cross registrations after round 9: a change made for one property was reported only by another property's rule
func init() {
	register("C01", ruleC05Window)          // exec answers (nil, nil) for an empty result: `x IN (subquery without rows)` fails
	register("C02", ruleC15Dispatch)        // float32 dropped from Compare's inner type switch: CASE WHEN / WHERE on float32 data
	register("C10", ruleC07CteMemo)         // the cycle mark of a CTE kept only in a snapshot of the registry: mutual recursion overflows the stack
	register("C18", ruleC08AsArrayIdentity) // AsArray drops NULL rows and FIRST/LAST/ELEMENTAT/UNWIND start to go through it
	register("C18", ruleC17ByteCopy)        // a string literal's bytes >= 0x80 re-encoded by the quote rewriter: TO_UPPER, HASH, ENCODE see mojibake
	register("C20", ruleC02OnePerRow)       // a `break` that leaves the switch, not the loop: SETVAR of the rows after a failing one still runs
	register("C08", ruleC07FunctionOnThunk) // mix=>cte: the lazy table evaluated into a shadow variable
}

// c10.callback-guarded — the callbacks a caller may leave out (fields of function type in the module's own structs:
// Options.errors, Options.completed) are nil for a query made with Prepare(data, stmt, &Options{}) whatever New
// installs: calling one without asking panics, and inside a goroutine's deferred handler it ends the process.
// Added after round 9 (New installs a no-op handler and the `!= nil` guards are dropped: fine for every query New makes).
func init() {
	for _, id := range []string{"C10", "C13", "C14", "C19"} {
		register(id, ruleC10CallbackGuarded)
	}
}

func ruleC10CallbackGuarded(c *Ctx) {
	c.Doc("c10.callback-guarded", "every call of a function-typed field of an exported struct of the module (the callbacks of Options) is dominated by a test that this field is not nil: a query made by Prepare with the caller's own Options carries whatever the caller left out, and a call of a nil function panics (in a goroutine's handler: the process ends)")
	n := 0
	count := map[string]int{}
	seen := map[string]bool{}
	fieldOf := func(v ssa.Value) (types.Type, int, bool) {
		u, ok := v.(*ssa.UnOp)
		if !ok {
			return nil, 0, false
		}
		fa, ok := u.X.(*ssa.FieldAddr)
		if !ok {
			return nil, 0, false
		}
		pt, ok := fa.X.Type().Underlying().(*types.Pointer)
		if !ok {
			return nil, 0, false
		}
		nt, ok := pt.Elem().(*types.Named)
		if !ok || nt.Obj().Pkg() == nil || !strings.HasPrefix(nt.Obj().Pkg().Path(), modPath) || !nt.Obj().Exported() {
			return nil, 0, false // an exported struct is what a caller can hand in with the field left out (&Options{}); a record of the module's own is filled by the module
		}
		return nt, fa.Field, true
	}
	for _, f := range c.P.ModFuncs {
		if len(f.Blocks) == 0 || !strings.HasPrefix(funcPkgPath(f), modPath) {
			continue
		}
		allInstrs(f, func(b *ssa.BasicBlock, in ssa.Instruction) {
			ci, ok := in.(ssa.CallInstruction)
			if !ok || ci.Common().IsInvoke() {
				return
			}
			st, fi, ok := fieldOf(ci.Common().Value)
			if !ok {
				return
			}
			if _, isSig := ci.Common().Value.Type().Underlying().(*types.Signature); !isSig {
				return
			}
			pos := c.P.Pos(in.Pos())
			if seen[pos] {
				return
			}
			seen[pos] = true
			fk := c.P.funcKey(f)
			fname := fieldName(types.NewPointer(st), fi)
			id := fk + "/" + fname
			count[id]++
			n++
			c.Fn(fk)
			// a dominating `field != nil` (true edge) or `field == nil` (false edge)
			guarded := false
			for d := b; d != nil && !guarded; d = d.Idom() {
				for _, p := range d.Preds {
					if len(p.Instrs) == 0 || !p.Dominates(b) && p != d.Idom() {
						continue
					}
					iff, ok := p.Instrs[len(p.Instrs)-1].(*ssa.If)
					if !ok || len(d.Preds) != 1 {
						continue
					}
					bo, ok := iff.Cond.(*ssa.BinOp)
					if !ok {
						continue
					}
					var other ssa.Value
					if k, isC := bo.Y.(*ssa.Const); isC && k.IsNil() {
						other = bo.X
					} else if k, isC := bo.X.(*ssa.Const); isC && k.IsNil() {
						other = bo.Y
					}
					if other == nil {
						continue
					}
					st2, fi2, ok := fieldOf(other)
					if !ok || fi2 != fi || !types.Identical(st2, st) {
						continue
					}
					if (bo.Op == token.NEQ && p.Succs[0] == d) || (bo.Op == token.EQL && p.Succs[1] == d) {
						guarded = true
					}
				}
			}
			c.Check(guarded, "c10.callback-guarded", fmt.Sprintf("%s#%d", id, count[id]), pos, "the call is made only where the field was found not nil", "the callback `"+fname+"` is called without a test that it is not nil: a query made by Prepare with the caller's own Options has none, the call panics (and in a goroutine's deferred handler the panic ends the process)")
		})
	}
	if n < 3 {
		c.Unknown("c10.callback-guarded", "inventory", "-", fmt.Sprintf("%d calls of a callback field found (REPORT, REPORT_WHEN and the panic reporter each make one, whatever the asynchronous strategies share)", n))
	}
}

func isStringType(t types.Type) bool {
	b, ok := t.Underlying().(*types.Basic)
	return ok && b.Info()&types.IsString != 0
}

func cut(s string, n int) string {
	if len(s) > n {
		return s[:n] + "..."
	}
	return s
}

// go.numeric-arms — a type switch over a value of the data that names several of Go's numeric types, but not all twelve,
// sends the ones it leaves out to its default arm: the rows of this library hold int, int64, float64 … uint8 alike
// (Go-built documents; JSON gives float64 only, which is what the tests use). Added after round 9: float32 "regrouped"
// out of Compare's inner switch (falls to the text comparison: 10 > float32(9) is false), and a new "only scalars"
// validation in ENCODE whose list omits int8, int16, uint, uint8, uint16 (DECODE(ENCODE(v)) fails for them).
// Decided on the syntax tree: every type switch of the module that lists six or more numeric basic types lists all
// twelve (in one or several cases). A switch that names fewer is a fast path (refactoring funcs7-r8: string, int, int64,
// float32, float64 written directly, everything else through %v as before) and is left alone.
func init() {
	for _, id := range []string{"C01", "C02", "C03", "C04", "C05", "C06", "C15", "C18"} {
		registerLate(id, ruleGoNumericArms)
	}
}

func ruleGoNumericArms(c *Ctx) {
	c.Doc("go.numeric-arms", "every type switch of the module that lists six or more of Go's twelve numeric types (a list that sets out to be complete, not a fast path for the common few in front of a general default) lists all twelve (int, int8, int16, int32, int64, uint, uint8, uint16, uint32, uint64, float32, float64): a kind that is left out takes the default arm — an error, a text comparison, a zero — only for documents built in Go with that kind (syntax tree with the type checker's types; the functions reachable from the ones this property's rules analyse)")
	all := []types.BasicKind{types.Int, types.Int8, types.Int16, types.Int32, types.Int64, types.Uint, types.Uint8, types.Uint16, types.Uint32, types.Uint64, types.Float32, types.Float64}
	reach := c.reachableFromAnalysed()
	wanted := map[token.Pos]string{}
	for f := range reach {
		if f.Syntax() == nil {
			continue
		}
		if fd, ok := f.Syntax().(*ast.FuncDecl); ok {
			wanted[fd.Name.Pos()] = c.P.funcKey(f)
		}
	}
	n := 0
	var pkgs []string
	for path := range c.P.All {
		if strings.HasPrefix(path, modPath) {
			pkgs = append(pkgs, path)
		}
	}
	sort.Strings(pkgs)
	for _, path := range pkgs {
		pk := c.P.All[path]
		for _, file := range pk.Syntax {
			for _, d := range file.Decls {
				fd, ok := d.(*ast.FuncDecl)
				if !ok || fd.Body == nil {
					continue
				}
				key, ok := wanted[fd.Name.Pos()]
				if !ok {
					continue
				}
				k := 0
				ast.Inspect(fd.Body, func(x ast.Node) bool {
					ts, ok := x.(*ast.TypeSwitchStmt)
					if !ok {
						return true
					}
					have := map[types.BasicKind]bool{}
					for _, cl := range ts.Body.List {
						cc, ok := cl.(*ast.CaseClause)
						if !ok {
							continue
						}
						for _, e := range cc.List {
							tv, ok := pk.TypesInfo.Types[e]
							if !ok || tv.Type == nil {
								continue
							}
							if b, ok := tv.Type.(*types.Basic); ok && b.Info()&types.IsNumeric != 0 && b.Info()&types.IsComplex == 0 {
								have[b.Kind()] = true
							}
						}
					}
					if len(have) < 6 {
						return true // a fast path for the common few (int, int64, float64 …) in front of a default that takes every type
					}
					k++
					n++
					var missing []string
					for _, bk := range all {
						if !have[bk] {
							missing = append(missing, types.Typ[bk].Name())
						}
					}
					c.Check(len(missing) == 0, "go.numeric-arms", fmt.Sprintf("%s/typeswitch#%d", key, k), c.P.Pos(ts.Pos()), "all twelve numeric types are listed", fmt.Sprintf("the type switch lists %d numeric types and leaves out %s: a value of such a type takes the default arm (uint8 is byte, int32 is rune)", len(have), strings.Join(missing, ", ")))
					return true
				})
			}
		}
	}
	if n == 0 && (c.Property == "C15" || c.Property == "C01") {
		c.Unknown("go.numeric-arms", "inventory", "-", "no type switch over the numeric types was found (Compare and As have one each)")
	}
	if n == 0 {
		c.PassTrivial("go.numeric-arms", "module", "-", "the functions of this property hold no type switch over six or more numeric types")
	}
}
