package genql

import (
	"bytes"
	"encoding/gob"
	"fmt"
	"os"
	"os/exec"
	"strings"
	"testing"
)

type findingUnrelatedGobType struct{ X int }

// C18: HASH(v, alg) is a pure function of v whose hex length matches alg, for
// every JSON scalar and for arrays thereof (empty, nested, with NULLs).
//
//  1. The preimage of the hash is a gob stream, and a gob stream carries the
//     type id gob assigned to struct{ Data any }. Ids are handed out process-wide
//     in order of first use, so HASH('test data', 'sha1') depends on whether the
//     process has gob-encoded any other type before the first HASH call.
//  2. gob cannot encode []any (nor a NULL element), so HASH of any array fails.
func TestFindingDemo(t *testing.T) {
	switch os.Getenv("GENQL_FINDING_CHILD") {
	case "plain":
		h, err := HashFunc(&Query{}, Map{}, nil, []any{"test data", "sha1"})
		fmt.Printf("HASH=%v err=%v\n", h, err)
		return
	case "gob-used-before":
		var b bytes.Buffer
		_ = gob.NewEncoder(&b).Encode(findingUnrelatedGobType{X: 1})
		h, err := HashFunc(&Query{}, Map{}, nil, []any{"test data", "sha1"})
		fmt.Printf("HASH=%v err=%v\n", h, err)
		return
	}
	child := func(mode string) string {
		cmd := exec.Command(os.Args[0], "-test.run=^TestFindingDemo$", "-test.count=1")
		cmd.Env = append(os.Environ(), "GENQL_FINDING_CHILD="+mode)
		out, err := cmd.CombinedOutput()
		if err != nil {
			t.Fatalf("child %s: %v\n%s", mode, err, out)
		}
		for _, line := range strings.Split(string(out), "\n") {
			if strings.HasPrefix(line, "HASH=") {
				return line
			}
		}
		t.Fatalf("child %s printed no hash:\n%s", mode, out)
		return ""
	}
	plain := child("plain")
	after := child("gob-used-before")
	if plain != after {
		t.Errorf("HASH('test data', 'sha1') is not a function of its argument:\n  fresh process:                       %s\n  process that used gob for another type: %s", plain, after)
	}

	lengths := map[string]int{"md5": 32, "sha1": 40, "sha256": 64, "sha512": 128}
	arrays := []any{
		[]any{},
		[]any{1.0, "a", true},
		[]any{nil},
		[]any{1.0, nil, []any{"x", []any{}}},
	}
	seen := map[string]int{}
	for i, arr := range arrays {
		for alg, n := range lengths {
			h1, err := HashFunc(&Query{}, Map{}, nil, []any{arr, alg})
			if err != nil {
				t.Errorf("HASH(%#v, %s): expected %d hex digits, got error %v", arr, alg, n, err)
				continue
			}
			h2, _ := HashFunc(&Query{}, Map{}, nil, []any{arr, alg})
			s, _ := h1.(string)
			if len(s) != n || h1 != h2 {
				t.Errorf("HASH(%#v, %s): expected %d stable hex digits, got %#v and %#v", arr, alg, n, h1, h2)
			}
			if alg == "sha256" {
				if j, ok := seen[s]; ok {
					t.Errorf("HASH of %#v and %#v collide", arrays[j], arr)
				}
				seen[s] = i
			}
		}
	}
}
