package genql

import (
	"math"
	"testing"

	sanitize "github.com/vedadiyan/genql/sanitizer"
	"github.com/vedadiyan/sqlparser/v2"
)

// A float64 argument that is NaN or +-Inf is written as the bare words NaN,
// +Inf, -Inf. The parser reads these as column references (with a sign), not
// as literals: the placeholder turns into a read of the document.
func TestFindingDemo(t *testing.T) {
	for _, f := range []float64{math.NaN(), math.Inf(1), math.Inf(-1)} {
		out, err := sanitize.SanitizeSQL("SELECT $1 AS v FROM dual", f)
		if err != nil {
			continue // refusing the value is fine
		}
		stmt, err := sqlparser.Parse(out)
		if err != nil {
			t.Errorf("%v: %q does not parse: %v", f, out, err)
			continue
		}
		expr := stmt.(*sqlparser.Select).SelectExprs.Exprs[0].(*sqlparser.AliasedExpr).Expr
		if _, ok := expr.(*sqlparser.Literal); !ok {
			t.Errorf("%v: sanitized %q: the placeholder became %T (%s), not a literal", f, out, expr, sqlparser.String(expr))
		}
		// and what it evaluates to is taken from the data
		q, err := New(Map{"NaN": "from the document", "Inf": 42.0}, out)
		if err != nil {
			continue
		}
		rs, err := q.Exec()
		if err == nil && len(rs) == 1 {
			if v := rs[0].(Map)["v"]; v != nil {
				if g, ok := v.(float64); !ok || math.Float64bits(g) != math.Float64bits(f) {
					t.Errorf("%v: `SELECT $1 AS v FROM dual` echoes %#v", f, v)
				}
			}
		}
	}
}
