package genql

import (
	"testing"
)

// C02: CASE WHEN <condition> THEN .. ELSE .. END has its ordinary meaning on
// the row. When the condition is a (boolean) column reference or NULL the
// engine does not resolve it and aborts the whole query with
// "expected a boolean but found bool".
func TestFindingDemo(t *testing.T) {
	data := Map{"t": []any{
		Map{"id": 1.0, "flag": true},
		Map{"id": 2.0, "flag": false},
		Map{"id": 3.0},
	}}
	q, err := New(data, "SELECT id, CASE WHEN flag THEN 'yes' ELSE 'no' END AS r, CASE WHEN NULL THEN 1 ELSE 2 END AS n FROM t")
	if err != nil {
		t.Fatal(err)
	}
	rs, err := q.Exec()
	if err != nil {
		t.Fatalf("CASE WHEN <boolean column> failed: %v", err)
	}
	if len(rs) != 3 {
		t.Fatalf("expected 3 rows, got %v", rs)
	}
	for i, want := range []string{"yes", "no", "no"} {
		row := rs[i].(Map)
		if row["r"] != want {
			t.Errorf("row %d: r = %#v, want %q", i, row["r"], want)
		}
		if row["n"] != 2.0 {
			t.Errorf("row %d: CASE WHEN NULL THEN 1 ELSE 2 END = %#v, want 2", i, row["n"])
		}
	}
}
