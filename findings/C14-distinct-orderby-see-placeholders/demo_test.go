package genql

import (
	"reflect"
	"testing"
	"time"
)

// C14: qualifying a call with ASYNC must not change what the query returns.
// DISTINCT and ORDER BY are applied before the ASYNC calls are awaited, i.e. on
// the *any placeholders instead of on the values.
func TestFindingDemo(t *testing.T) {
	RegisterFunction("c14f1_echo", func(_ *Query, _ Map, _ *FunctionOptions, args []any) (any, error) {
		if d, ok := args[1].(float64); ok && d > 0 {
			time.Sleep(time.Duration(d) * time.Millisecond)
		}
		return args[0], nil
	})
	data := Map{"t": []any{
		Map{"a": 1.0, "d": 3.0},
		Map{"a": 2.0, "d": 0.0},
		Map{"a": 1.0, "d": 1.0},
		Map{"a": 3.0, "d": 2.0},
	}}
	run := func(q string) []any {
		t.Helper()
		query, err := New(data, q)
		if err != nil {
			t.Fatalf("%s: %v", q, err)
		}
		rs, err := query.Exec()
		if err != nil {
			t.Fatalf("%s: %v", q, err)
		}
		return rs
	}
	for _, tail := range []struct{ head, tail string }{
		{"SELECT DISTINCT ", " AS v FROM t"},
		{"SELECT ", " AS v FROM t ORDER BY v DESC"},
		{"SELECT ", " AS v FROM t ORDER BY v ASC"},
	} {
		plain := run(tail.head + "c14f1_echo(a, d)" + tail.tail)
		async := run(tail.head + "ASYNC.c14f1_echo(a, d)" + tail.tail)
		if !reflect.DeepEqual(plain, async) {
			t.Errorf("%sASYNC.c14f1_echo(a, d)%s\n  unqualified: %v\n  ASYNC      : %v", tail.head, tail.tail, plain, async)
		}
	}
}
