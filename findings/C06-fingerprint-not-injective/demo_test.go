package genql

import (
	"reflect"
	"testing"
)

// DISTINCT / UNION identify rows by their fmt "%v" rendering, which is not
// injective: rows that are different values are removed as "duplicates".
func TestFindingDemo(t *testing.T) {
	exec := func(data Map, q string) []any {
		t.Helper()
		query, err := New(data, q)
		if err != nil {
			t.Fatalf("%s: %v", q, err)
		}
		rs, err := query.Exec()
		if err != nil {
			t.Fatalf("%s: %v", q, err)
		}
		return rs
	}

	// (1) two rows with the same columns, all strings, different values
	data := Map{"s": []any{
		Map{"a": "1 b:2", "b": "3"},
		Map{"a": "1", "b": "2 b:3"},
	}}
	want := []any{
		Map{"a": "1 b:2", "b": "3"},
		Map{"a": "1", "b": "2 b:3"},
	}
	if got := exec(data, `SELECT DISTINCT a, b FROM s`); !reflect.DeepEqual(got, want) {
		t.Errorf("SELECT DISTINCT a, b FROM s\n got  %v\n want %v", got, want)
	}
	if got := exec(data, `SELECT DISTINCT * FROM s`); !reflect.DeepEqual(got, want) {
		t.Errorf("SELECT DISTINCT * FROM s\n got  %v\n want %v", got, want)
	}

	// (2) NULL and the string "<nil>" are different values
	data = Map{"n": []any{
		Map{"a": nil},
		Map{"a": "<nil>"},
	}}
	want = []any{Map{"a": nil}, Map{"a": "<nil>"}}
	if got := exec(data, `SELECT DISTINCT a FROM n`); !reflect.DeepEqual(got, want) {
		t.Errorf("SELECT DISTINCT a FROM n\n got  %v\n want %v", got, want)
	}

	// (3) UNION: an array and a string that prints like it
	data = Map{
		"p": []any{Map{"a": []any{"x", "y"}}},
		"q": []any{Map{"a": "[x y]"}},
	}
	want = []any{Map{"a": []any{"x", "y"}}, Map{"a": "[x y]"}}
	if got := exec(data, `SELECT a FROM p UNION SELECT a FROM q`); !reflect.DeepEqual(got, want) {
		t.Errorf("SELECT a FROM p UNION SELECT a FROM q\n got  %v\n want %v", got, want)
	}
}
