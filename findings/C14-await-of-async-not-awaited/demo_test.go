package genql

import (
	"fmt"
	"sync/atomic"
	"testing"
	"time"
)

// C13, clause "the library's own internal parallelism (... ASYNC/SPINASYNC
// functions) is free of data races".
//
// AWAIT evaluates its argument in a post-processor, i.e. after
// execAndPostProcess has already done query.wg.Wait(). When the argument is
// an ASYNC call, its goroutine is only started then, nobody waits for it, and
// the next post-processor (SelectExpr) dereferences the result cell while the
// goroutine is still running: a data race (reported by -race), a NULL result
// and a goroutine that outlives Exec.
func TestFindingDemo(t *testing.T) {
	var finished atomic.Int64
	RegisterFunction("c13_slow", func(q *Query, c Map, o *FunctionOptions, args []any) (any, error) {
		time.Sleep(30 * time.Millisecond)
		finished.Add(1)
		return fmt.Sprintf("v%v", args[0]), nil
	})
	doc := Map{"t": []any{Map{"id": 1.0}, Map{"id": 2.0}, Map{"id": 3.0}}}

	// baseline: awaiting the ASYNC result of a derived table works
	query, err := New(doc, `SELECT AWAIT(x.y) AS y FROM (SELECT ASYNC.c13_slow(id) AS y FROM t) x`)
	if err != nil {
		t.Fatal(err)
	}
	rows, err := query.Exec()
	if err != nil {
		t.Fatal(err)
	}
	if got := fmt.Sprintf("%v", rows); got != "[map[y:v1] map[y:v2] map[y:v3]]" {
		t.Fatalf("baseline: %s", got)
	}

	finished.Store(0)
	query, err = New(doc, `SELECT AWAIT(ASYNC.c13_slow(id)) AS y FROM t`)
	if err != nil {
		t.Fatal(err)
	}
	rows, err = query.Exec()
	if err != nil {
		t.Fatal(err)
	}
	done := finished.Load()
	got := fmt.Sprintf("%v", rows)
	if done != 3 {
		t.Errorf("Exec returned while %d of 3 ASYNC calls were still running", 3-done)
	}
	if got != "[map[y:v1] map[y:v2] map[y:v3]]" {
		t.Errorf("AWAIT(ASYNC.f(id)): got %s, want [map[y:v1] map[y:v2] map[y:v3]] (the result cell is read while the goroutine that writes it is still running)", got)
	}
	// keeps the process alive long enough for `go test -race` to observe the late write
	time.Sleep(100 * time.Millisecond)
}
