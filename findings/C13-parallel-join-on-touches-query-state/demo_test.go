package genql

import (
	"fmt"
	"sync/atomic"
	"testing"
	"time"
)

// C13, clause "the library's own internal parallelism (PARALLEL joins ...)
// is free of data races".
//
// A PARALLEL join evaluates its ON expression on the one shared *Query from
// one goroutine per left key. The ON expression may use everything Expr
// supports: a ONCE./GLOBAL. function (per-query memo map
// query.singletonExecutions), a subquery / EXISTS (query.postProcessors is
// appended to), AWAIT ... All of that state is unsynchronised.
//
// The demo makes the unsynchronised check-then-act on the ONCE memo visible
// without the race detector: the memoised function must run once per query
// (it does with a plain JOIN), with PARALLEL JOIN every goroutine finds the
// memo empty and runs it again (and all of them write the map concurrently:
// `go test -race` reports the race, and without the detector the runtime may
// abort the process with "fatal error: concurrent map writes" or "concurrent map
// read and map write" - the demo then fails that way, which happens in some runs).
func TestFindingDemo(t *testing.T) {
	var calls atomic.Int64
	RegisterFunction("c13_once_probe", func(q *Query, c Map, o *FunctionOptions, args []any) (any, error) {
		n := calls.Add(1)
		// long enough for every goroutine of the parallel join to get past the
		// memo lookup; staggered so that the demo fails on the assertion below
		// rather than on the runtime's concurrent map write detector
		time.Sleep(time.Duration(20+n) * time.Millisecond)
		return true, nil
	})
	const n = 24
	a, b := make([]any, 0), make([]any, 0)
	for i := 0; i < n; i++ {
		a = append(a, Map{"id": float64(i), "v": fmt.Sprintf("a%d", i)})
		b = append(b, Map{"id": float64(i), "w": fmt.Sprintf("b%d", i)})
	}
	doc := Map{"a": a, "b": b}

	run := func(join string) (int, int64) {
		calls.Store(0)
		query, err := New(doc, `SELECT x.id, y.w FROM a x `+join+` b y ON x.id = y.id AND ONCE.c13_once_probe()`)
		if err != nil {
			t.Fatalf("%s: %v", join, err)
		}
		rows, err := query.Exec()
		if err != nil {
			t.Fatalf("%s: %v", join, err)
		}
		return len(rows), calls.Load()
	}

	rows, ran := run("JOIN")
	if rows != n || ran != 1 {
		t.Fatalf("baseline JOIN: %d rows, ONCE function ran %d times (want %d rows, 1 run)", rows, ran, n)
	}
	rows, ran = run("PARALLEL JOIN")
	if rows != n || ran != 1 {
		t.Fatalf("PARALLEL JOIN: %d rows, ONCE function ran %d times (want %d rows, 1 run): "+
			"the goroutines of the parallel join read and write query.singletonExecutions without synchronisation", rows, ran, n)
	}
}
