package genql

import (
	"fmt"
	"testing"
)

// C03: in the output row of a group "the grouping columns ... refer to that
// group's members". A grouping column whose name is not a plain dotted word
// path (a key that needs quoting, an index selector) partitions the rows
// correctly, but its value in the output row is NULL for every group.
func TestFindingDemo(t *testing.T) {
	data := Map{"t": []any{
		Map{"first name": "Al", "tags": []any{"p", "q"}, "v": 1},
		Map{"first name": "Al", "tags": []any{"p", "r"}, "v": 2},
		Map{"first name": "Bo", "tags": []any{"s"}, "v": 3},
	}}
	cases := []struct {
		query string
		want  string
	}{
		{"SELECT `'first name'` AS g, COUNT(*) AS c, SUM(v) AS s FROM t GROUP BY `'first name'`", "[Al 2 3] [Bo 1 3]"},
		{"SELECT `x.'first name'` AS g, COUNT(*) AS c, SUM(x.v) AS s FROM t AS x GROUP BY `x.'first name'`", "[Al 2 3] [Bo 1 3]"},
		{"SELECT `'first name'` AS g, COUNT(*) AS c, SUM(v) AS s FROM t GROUP BY `'first name'` HAVING `'first name'` = 'Al'", "[Al 2 3]"},
	}
	for _, c := range cases {
		q, err := New(data, c.query)
		if err != nil {
			t.Fatalf("%s: %v", c.query, err)
		}
		rs, err := q.Exec()
		if err != nil {
			t.Fatalf("%s: %v", c.query, err)
		}
		got := ""
		for i, row := range rs {
			m := row.(Map)
			if i > 0 {
				got += " "
			}
			got += fmt.Sprint([]any{m["g"], m["c"], m["s"]})
		}
		if got != c.want {
			t.Errorf("%s\n got %s\nwant %s", c.query, got, c.want)
		}
	}
}
