package genql

import (
	"fmt"
	"testing"
)

// ORDER BY a, b: rows that tie on the first key (here: both NULL) must be
// ordered by the second key.
func TestFindingDemo(t *testing.T) {
	data := Map{"data": []any{
		Map{"id": 1.0, "a": 1.0, "b": 5.0},
		Map{"id": 2.0, "a": nil, "b": 2.0},
		Map{"id": 3.0, "a": nil, "b": 1.0},
		Map{"id": 4.0, "a": 1.0, "b": 4.0},
		Map{"id": 5.0, "b": 0.0}, // missing key: NULL as well
	}}
	for _, tc := range []struct {
		query string
		want  string
	}{
		{"SELECT id, a, b FROM data ORDER BY a, b", "[4 1 5 3 2]"},
		{"SELECT id, a, b FROM data ORDER BY a ASC, b DESC", "[1 4 2 3 5]"},
		{"SELECT id, a, b FROM data ORDER BY a DESC, b ASC", "[4 1 5 3 2]"},
	} {
		q, err := New(data, tc.query)
		if err != nil {
			t.Fatal(err)
		}
		rs, err := q.Exec()
		if err != nil {
			t.Fatal(err)
		}
		ids := make([]any, 0)
		for _, row := range rs {
			ids = append(ids, row.(Map)["id"])
		}
		if got := fmt.Sprint(ids); got != tc.want {
			t.Errorf("%s\n  ids in output order: got %s, want %s\n  rows: %v", tc.query, got, tc.want, rs)
		}
	}
}
