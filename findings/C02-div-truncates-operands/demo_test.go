package genql

import (
	"testing"
)

// C02: "values equal the ordinary meaning of each expression on that row: ... DIV ... on IEEE doubles".
// x DIV y is the integer part of the quotient x / y. The engine truncates both
// operands to int64 BEFORE dividing, so 9 DIV 2.5 is computed as 9 / 2 = 4 (the
// quotient 3.6 has the integer part 3) and 7.5 DIV 0.5 is computed as 7 / 0,
// which panics with "integer divide by zero" and fails the whole query.
func TestFindingDemo(t *testing.T) {
	data := Map{"t": []any{
		Map{"a": 9.0, "b": 2.5},  // 9 / 2.5 = 3.6  -> 3
		Map{"a": 7.5, "b": 0.5},  // 7.5 / 0.5 = 15 -> 15
		Map{"a": -9.0, "b": 2.5}, // -3.6 -> -3
	}}
	want := []float64{3, 15, -3}

	// constants only: no row can be blamed
	q, err := New(data, "SELECT 9 DIV 2.5 AS x FROM t")
	if err != nil {
		t.Fatal(err)
	}
	rs, err := q.Exec()
	if err != nil {
		t.Fatalf("9 DIV 2.5: unexpected error %v", err)
	}
	if got := rs[0].(Map)["x"]; got != 3.0 {
		t.Errorf("9 DIV 2.5 = %v, want 3 (9/2.5 = 3.6)", got)
	}

	q, err = New(data, "SELECT a DIV b AS x FROM t")
	if err != nil {
		t.Fatal(err)
	}
	rs, err = q.Exec()
	if err != nil {
		t.Fatalf("a DIV b: the query fails instead of emitting one row per source row: %v", err)
	}
	if len(rs) != len(want) {
		t.Fatalf("got %d rows, want %d", len(rs), len(want))
	}
	for i, w := range want {
		if got := rs[i].(Map)["x"]; got != w {
			t.Errorf("row %d: a DIV b = %v, want %v", i, got, w)
		}
	}
}
