package genql

import (
	"strings"
	"testing"

	sanitize "github.com/vedadiyan/genql/sanitizer"
	"github.com/vedadiyan/sqlparser/v2"
)

// A byte that is not valid UTF-8 anywhere in the template (a latin-1 comment, a
// binary string literal) is taken for the end of the input: everything after
// it is silently dropped from the sanitized statement.
func TestFindingDemo(t *testing.T) {
	shape := func(sql string) string {
		stmt, err := sqlparser.Parse(sql)
		if err != nil {
			return "parse error: " + err.Error()
		}
		return sqlparser.String(stmt)
	}

	// the parser is byte based and accepts the template: comment, then WHERE
	tmpl := "SELECT $1 AS v FROM users # caf\xe9\n WHERE admin = false"
	if got, want := shape(tmpl), "select $1 as v from users where admin = false"; got != want {
		t.Fatalf("template parses to %s, want %s", got, want)
	}
	out, err := sanitize.SanitizeSQL(tmpl, "x")
	if err != nil {
		t.Fatal(err)
	}
	if !strings.HasSuffix(out, "WHERE admin = false") {
		t.Errorf("the tail of the template was dropped: %q", out)
	}
	if got, want := shape(out), "select 'x' as v from users where admin = false"; got != want {
		t.Errorf("sanitized statement parses to %s, want %s", got, want)
	}

	// same thing inside a string literal, with the placeholder after it
	out, err = sanitize.SanitizeSQL("SELECT 'caf\xe9' AS a, $1 AS v FROM dual", "x")
	if err != nil {
		t.Errorf("placeholder after a non UTF-8 string literal: %v", err)
	} else if out != "SELECT 'caf\xe9' AS a, 'x' AS v FROM dual" {
		t.Errorf("got %q", out)
	}
}
