package genql

import (
	"reflect"
	"testing"
)

// C20: GETVAR(k) returns the value most recently stored by SETVAR(k, .) in
// evaluation order, rows in source order. Here the key is a number: the id
// column of the rows holds Go ints (as a caller's document does), the query
// names the same key with a literal. The register of key 1000000 is one register.
func TestFindingDemo(t *testing.T) {
	data := Map{"t": []any{
		Map{"id": 1000000, "x": "first"},
		Map{"id": 2000000, "x": "second"},
	}}
	vars := map[string]any{}
	query, err := New(data, "SELECT SETVAR(id, x), GETVAR(1000000) AS byLiteral, GETVAR(id) AS byColumn FROM t", WithVars(vars))
	if err != nil {
		t.Fatal(err)
	}
	rs, err := query.Exec()
	if err != nil {
		t.Fatal(err)
	}
	want := []any{
		Map{"byLiteral": "first", "byColumn": "first"},
		Map{"byLiteral": "first", "byColumn": "second"},
	}
	if !reflect.DeepEqual(rs, want) {
		t.Errorf("SETVAR(id, x) with id = int(1000000) then GETVAR(1000000):\n got %v\nwant %v", rs, want)
	}

	// the same with literals only: the number 1000000 and the text '1000000' are one
	// key (as 1 and '1' are), and the caller finds the value under "1000000"
	vars = map[string]any{}
	query, err = New(data, "SELECT SETVAR(1000000, 'v'), GETVAR('1000000') AS g FROM dual", WithVars(vars))
	if err != nil {
		t.Fatal(err)
	}
	rs, err = query.Exec()
	if err != nil {
		t.Fatal(err)
	}
	if !reflect.DeepEqual(rs, []any{Map{"g": "v"}}) {
		t.Errorf("SETVAR(1000000, 'v') then GETVAR('1000000'): got %v, want [map[g:v]]", rs)
	}
	if value, ok := vars["1000000"]; !ok || value != "v" {
		t.Errorf("after Exec the caller's map is %#v, want the value under \"1000000\"", vars)
	}

	// control: the small key behaves as required already
	vars = map[string]any{}
	query, _ = New(data, "SELECT SETVAR(1, 'v'), GETVAR('1') AS g FROM dual", WithVars(vars))
	rs, _ = query.Exec()
	if !reflect.DeepEqual(rs, []any{Map{"g": "v"}}) {
		t.Errorf("control: got %v", rs)
	}
}
