package genql

import (
	"reflect"
	"testing"
)

// C17, PostgresEscapingDialect clause: a query written with double-quoted
// identifiers under the option returns what the same query with backtick
// identifiers returns without it - for identifiers over an alphabet that
// contains the backtick.
func TestFindingDemo(t *testing.T) {
	exec := func(query string, opts ...QueryOption) (any, error) {
		data := Map{"t": []any{Map{"a": 1}}}
		q, err := New(data, query, opts...)
		if err != nil {
			return nil, err
		}
		return q.Exec()
	}
	// the identifier x`y, MySQL style (a backtick is doubled inside backticks)
	want, err := exec("SELECT a AS `x``y` FROM t")
	if err != nil {
		t.Fatalf("backtick rendering failed: %v", err)
	}
	if !reflect.DeepEqual(want, []any{Map{"x`y": 1}}) {
		t.Fatalf("unexpected reference result %#v", want)
	}
	// the same identifier, Postgres style (a backtick is an ordinary character
	// inside double quotes)
	got, err := exec("SELECT a AS \"x`y\" FROM t", PostgresEscapingDialect())
	if err != nil {
		t.Fatalf("double-quoted rendering failed: %v (want %#v)", err, want)
	}
	if !reflect.DeepEqual(got, want) {
		t.Fatalf("got %#v, want %#v", got, want)
	}
}
