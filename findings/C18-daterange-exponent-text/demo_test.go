package genql

import "testing"

// DATERANGE(f, t) returns [f, t]: an epoch bound must come back as the bound (its decimal text), not in exponent form.
func TestFindingDemo(t *testing.T) {
	query, err := New(Map{"from": float64(1700000000000), "to": float64(1700000100000)}, "SELECT DATERANGE(`from`, `to`) AS r FROM dual")
	if err != nil {
		t.Fatal(err)
	}
	rs, err := query.Exec()
	if err != nil {
		t.Fatal(err)
	}
	r, ok := rs[0].(Map)["r"].([]string)
	if !ok || len(r) != 2 || r[0] != "1700000000000" || r[1] != "1700000100000" {
		t.Fatalf("DATERANGE(1700000000000, 1700000100000) = %#v", rs[0].(Map)["r"])
	}
}
