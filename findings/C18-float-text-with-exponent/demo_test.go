package genql

import "testing"

// C18: CONCAT joins the textual forms of its arguments; CHANGETYPE converts
// between string, double and integer, and string<->double round-trips.
// The textual form of a float64 is taken with fmt's %v, which is %g with the
// shortest precision: it switches to an exponent from 1e21 upwards, below 1e-4,
// and - because the exponent threshold of the shortest form is 6 digits less
// than the precision it prints - already for 1000000 ("1e+06") and 1234567
// ("1.234567e+06").
func TestFindingDemo(t *testing.T) {
	data := Map{"t": []any{Map{"big": 1234567.0}}}
	run := func(q string) any {
		t.Helper()
		query, err := New(data, q)
		if err != nil {
			t.Errorf("%s: %v", q, err)
			return nil
		}
		rows, err := query.Exec()
		if err != nil {
			t.Errorf("%s: %v", q, err)
			return nil
		}
		if len(rows) != 1 {
			t.Errorf("%s: expected one row, got %#v", q, rows)
			return nil
		}
		return rows[0].(Map)["r"]
	}
	// every number literal of a query is a float64
	if got := run("SELECT CONCAT('id-', 1000000) AS r FROM t"); got != "id-1000000" {
		t.Errorf("CONCAT('id-', 1000000): expected %q, got %#v", "id-1000000", got)
	}
	if got := run("SELECT CONCAT(big, '') AS r FROM t"); got != "1234567" {
		t.Errorf("CONCAT(1234567.0, ''): expected %q, got %#v", "1234567", got)
	}
	// double -> string
	if got := run("SELECT CHANGETYPE(big, 'string') AS r FROM t"); got != "1234567" {
		t.Errorf("CHANGETYPE(1234567.0, 'string'): expected %q, got %#v", "1234567", got)
	}
	// string -> double -> string round-trips
	if got := run("SELECT CHANGETYPE(CHANGETYPE('1234567', 'double'), 'string') AS r FROM t"); got != "1234567" {
		t.Errorf("CHANGETYPE(CHANGETYPE('1234567','double'),'string'): expected %q, got %#v", "1234567", got)
	}
	// double -> integer of a whole number
	if got := run("SELECT CHANGETYPE(1234567, 'integer') AS r FROM t"); got != 1234567 {
		t.Errorf("CHANGETYPE(1234567, 'integer'): expected 1234567, got %#v", got)
	}
}
