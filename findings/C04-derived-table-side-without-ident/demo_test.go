package genql

import (
	"fmt"
	"sort"
	"strings"
	"testing"
)

// C04 (interpretation: an aliased derived table is an aliased array). When a
// side of the join is `(SELECT ...) alias` instead of `name alias`, the alias
// never reaches the join: BuildFromAliasedTable wraps the rows as {alias: row}
// but leaves query.ident empty for a derived table. ON columns of that side
// are then not recognised, matches are lost and the merged rows of an outer
// join carry the key "" instead of the alias.
func TestFindingDemo(t *testing.T) {
	ids := func(rs []any) string {
		out := []string{}
		for _, row := range rs {
			m := row.(Map)
			f := func(k string) string {
				v, ok := m[k]
				if !ok {
					return "MISSING"
				}
				if v == nil {
					return "NULL"
				}
				return fmt.Sprintf("%v", v.(Map)["id"])
			}
			out = append(out, f("a")+"|"+f("b"))
		}
		sort.Strings(out)
		return strings.Join(out, " ")
	}
	data := Map{
		"l": []any{Map{"id": 1, "k": 1}, Map{"id": 2, "k": 2}},
		"r": []any{Map{"id": 3, "k": 2}, Map{"id": 4, "k": 5}},
	}
	froms := []string{
		"l a %s r b",                                 // reference: plain aliased arrays
		"(SELECT * FROM l) a %s r b",                 // left side derived
		"l a %s (SELECT * FROM r) b",                 // right side derived
		"(SELECT * FROM l) a %s (SELECT * FROM r) b", // both derived
	}
	for _, c := range []struct{ join, on, want string }{
		{"JOIN", "a.k = b.k", "2|3"},
		{"STRAIGHT_JOIN", "a.k = b.k", "2|3"},
		{"LEFT JOIN", "a.k = b.k", "1|NULL 2|3"},
		{"RIGHT JOIN", "b.k = a.k", "2|3 NULL|4"},
		{"JOIN", "a.k < b.k", "1|3 1|4 2|4"},
		{"LEFT JOIN", "a.k > b.k", "1|NULL 2|NULL"},
	} {
		for _, from := range froms {
			sql := fmt.Sprintf("SELECT * FROM "+from+" ON %s", c.join, c.on)
			q, err := New(data, sql)
			if err != nil {
				t.Errorf("%s: %v", sql, err)
				continue
			}
			rs, err := q.Exec()
			if err != nil {
				t.Errorf("%s: %v", sql, err)
				continue
			}
			if got := ids(rs); got != c.want {
				t.Errorf("%s: got [%s], want [%s]", sql, got, c.want)
			}
		}
	}
}
