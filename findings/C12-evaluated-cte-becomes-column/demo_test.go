package genql

import (
	"sort"
	"testing"
)

// C02: for `*` the keys of an output row are exactly the source keys and no
// engine-internal key appears. With `FROM dual` the row is the document. Once
// a common table expression has been evaluated the engine stores its rows in
// the document under the CTE's name, and `*` emits that entry as a column:
// on the first Exec when the CTE is used by an item that precedes `*`, on
// every later Exec of the same Query otherwise.
func TestFindingDemo(t *testing.T) {
	keys := func(row any) []string {
		out := make([]string, 0)
		for key := range row.(Map) {
			out = append(out, key)
		}
		sort.Strings(out)
		return out
	}
	data := Map{"t": []any{Map{"a": 9.0}, Map{"a": 7.0}}, "o": 1.0}
	q, err := New(data, "WITH c AS (SELECT a FROM t) SELECT *, (SELECT a FROM c) AS x FROM dual")
	if err != nil {
		t.Fatal(err)
	}
	for run := 1; run <= 2; run++ {
		rs, err := q.Exec()
		if err != nil {
			t.Fatal(err)
		}
		if len(rs) != 1 {
			t.Fatalf("run %d: expected 1 row, got %v", run, rs)
		}
		got := keys(rs[0])
		want := []string{"o", "t", "x"}
		if len(got) != len(want) || got[0] != want[0] || got[1] != want[1] || got[2] != want[2] {
			t.Errorf("run %d: keys = %v, want %v (source keys o, t and the alias x)", run, got, want)
		}
	}
	// the item order must not matter either
	q, err = New(data, "WITH c AS (SELECT a FROM t) SELECT (SELECT a FROM c) AS x, * FROM dual")
	if err != nil {
		t.Fatal(err)
	}
	rs, err := q.Exec()
	if err != nil {
		t.Fatal(err)
	}
	if _, ok := rs[0].(Map)["c"]; ok {
		t.Errorf("`x, *`: the evaluated CTE `c` appears as a column: keys = %v", keys(rs[0]))
	}
}
