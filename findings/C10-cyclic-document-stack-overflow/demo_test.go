package genql

import (
	"runtime/debug"
	"testing"
)

// C10: "never overflows the stack ... self- or mutually-referencing CTEs ...
// queries that format rows while a `<-` back-reference is in scope".
//
// The rows of a common table expression can be made to hold the very map the
// CTE is registered in (the enclosing document, reachable with `<-`):
// FROM `<-` a turns that map - the map itself, not a copy - into the row
// {a: document}, `*` copies the key a into the output row, and the CTE result
// is then stored back into the map. The document has become cyclic, and the first thing that
// formats a row of the CTE with %v (DISTINCT, CONCAT, LIKE, a comparison with a
// non number, ...) recurses until the goroutine stack is exhausted: a fatal
// error that the recover() in Exec cannot intercept. On the unmodified HEAD
// this test takes the test binary down ("fatal error: stack overflow").
func TestFindingDemo(t *testing.T) {
	// the recursion is unbounded: a smaller stack limit only makes the demo
	// quick and light (with the default 1 GB limit it needs 3 s and 1.2 GB)
	defer debug.SetMaxStack(debug.SetMaxStack(64 << 20))

	data := Map{
		"s": "x",
		"t": []any{Map{"id": float64(1)}},
	}
	q, err := New(data, "WITH c AS (SELECT (SELECT * FROM `<-` a) AS x FROM t) SELECT DISTINCT * FROM c")
	if err != nil {
		return // an error is fine
	}
	_, _ = q.Exec() // a result or an error are fine; killing the process is not
}
