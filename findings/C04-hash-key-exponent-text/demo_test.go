package genql

import (
	"fmt"
	"testing"
)

// An equi-join (automatic hash path) and the same join written so that the nested loop runs must agree,
// whatever Go numeric type a key arrives in. 1500000 as int and as float64 are the same number.
func TestFindingDemo(t *testing.T) {
	data := Map{
		"a": []any{Map{"id": 1500000, "n": "x"}, Map{"id": 7, "n": "y"}},
		"b": []any{Map{"id": float64(1500000), "m": "p"}, Map{"id": float64(7), "m": "q"}},
	}
	count := func(q string) int {
		query, err := New(data, q)
		if err != nil {
			t.Fatal(err)
		}
		rs, err := query.Exec()
		if err != nil {
			t.Fatal(err)
		}
		return len(rs)
	}
	hash := count("SELECT x.n, y.m FROM a x JOIN b y ON x.id = y.id")
	loop := count("SELECT x.n, y.m FROM a x JOIN b y ON x.id >= y.id AND x.id <= y.id")
	if hash != loop {
		t.Fatalf("hash path pairs %d rows, nested loop pairs %d (%s)", hash, loop, fmt.Sprint("1500000 int vs float64"))
	}
}
