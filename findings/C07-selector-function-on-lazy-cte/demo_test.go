package genql

import (
	"fmt"
	"testing"
)

// C07, first clause: a query reading from a CTE returns what the same outer
// query returns over the inner query's materialised result supplied as plain
// input, including CTEs that are read through a path selector.
//
// A selector that applies a top-level function (`distinct=>`, `mix=>`) directly
// to the CTE fails with "unsupported operation" as long as the CTE has not been
// evaluated yet; over plain input the same outer query works.
func TestFindingDemo(t *testing.T) {
	doc := Map{"tbl": []any{
		Map{"k": "a", "n": 1.0},
		Map{"k": "b", "n": 2.0},
		Map{"k": "a", "n": 3.0},
	}}
	exec := func(data Map, sql string) ([]any, error) {
		query, err := New(data, sql)
		if err != nil {
			return nil, err
		}
		return query.Exec()
	}
	inner := "SELECT k FROM tbl"
	for _, outer := range []string{
		"SELECT * FROM `distinct=>c`",
		"SELECT * FROM `mix=>c`",
	} {
		materialised, err := exec(doc, inner)
		if err != nil {
			t.Fatal(err)
		}
		staged := Map{"tbl": doc["tbl"], "c": materialised}
		want, err := exec(staged, outer)
		if err != nil {
			t.Fatal(err)
		}
		got, err := exec(doc, "WITH c AS ("+inner+") "+outer)
		if err != nil || fmt.Sprintf("%v", got) != fmt.Sprintf("%v", want) {
			t.Errorf("%s: got %v (error: %v), staged evaluation returns %v", outer, got, err, want)
		}
	}
}
