package genql

import (
	"fmt"
	"testing"

	"github.com/vedadiyan/genql/compare"
)

// C07, IN clause: a subquery on the right of IN contributes exactly what that
// subquery returns when run standalone.
//
// `x NOT IN (subquery)` never looks inside the rows the subquery returns, so it
// is true for every row - also for the rows for which `x IN (subquery)` is true.
func TestFindingDemo(t *testing.T) {
	doc := Map{
		"users":   []any{Map{"id": 1.0}, Map{"id": 2.0}, Map{"id": 3.0}},
		"blocked": []any{Map{"uid": 1.0}, Map{"uid": 3.0}},
	}
	run := func(data Map, sql string) []any {
		query, err := New(data, sql)
		if err != nil {
			t.Fatal(err)
		}
		rs, err := query.Exec()
		if err != nil {
			t.Fatal(err)
		}
		return rs
	}
	in := run(doc, "SELECT id FROM users WHERE id IN (SELECT uid FROM `<-blocked`)")
	notIn := run(doc, "SELECT id FROM users WHERE id NOT IN (SELECT uid FROM `<-blocked`)")

	// reference: the subquery run standalone on the enclosing document
	standalone := run(doc, "SELECT uid FROM blocked")
	wantIn, wantNotIn := []any{}, []any{}
	for _, row := range doc["users"].([]any) {
		found := false
		for _, value := range standalone {
			if compare.Compare(row.(Map)["id"], value.(Map)["uid"]) == 0 {
				found = true
			}
		}
		if found {
			wantIn = append(wantIn, Map{"id": row.(Map)["id"]})
		} else {
			wantNotIn = append(wantNotIn, Map{"id": row.(Map)["id"]})
		}
	}
	if fmt.Sprintf("%v", in) != fmt.Sprintf("%v", wantIn) {
		t.Errorf("IN (subquery): got %v, want %v", in, wantIn)
	}
	if fmt.Sprintf("%v", notIn) != fmt.Sprintf("%v", wantNotIn) {
		t.Errorf("NOT IN (subquery): got %v, want %v", notIn, wantNotIn)
	}
}
