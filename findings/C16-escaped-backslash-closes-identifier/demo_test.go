package genql

import (
	"reflect"
	"sort"
	"testing"

	sanitize "github.com/vedadiyan/genql/sanitizer"
)

// C16: no argument content can add, remove or alter clauses.
//
// The template has one placeholder in a literal position, after a double-quoted
// identifier whose name ends in a backslash. Under PostgresEscapingDialect() the
// library's own pre-processor (DoubleQuotesToBackTick) reads `\"` as an escaped
// quote even when the backslash is itself escaped, while the placeholder lexer
// (and the parser) pair the two backslashes. The identifier therefore "stays
// open" for the pre-processor, swallows the opening quote of the substituted
// literal and is closed by a `"` that comes from the ARGUMENT: what follows in
// the argument is SQL.
func TestFindingDemo(t *testing.T) {
	data := Map{"t": []any{Map{`a\\`: 1.0, "secret": "s3"}}}
	const tmpl = `SELECT "a\\" AS x, $1 AS v FROM t`

	type outcome struct {
		failed bool
		keys   []string
		v      any
	}
	exec := func(arg string) outcome {
		sql, err := sanitize.SanitizeSQL(tmpl, arg)
		if err != nil {
			t.Fatalf("sanitize: %v", err)
		}
		q, err := New(data, sql, PostgresEscapingDialect())
		if err != nil {
			return outcome{failed: true}
		}
		rs, err := q.Exec()
		if err != nil {
			return outcome{failed: true}
		}
		if len(rs) != 1 {
			t.Fatalf("arg %q: expected the one row of t, got %#v", arg, rs)
		}
		row := rs[0].(Map)
		keys := make([]string, 0)
		for key := range row {
			keys = append(keys, key)
		}
		sort.Strings(keys)
		return outcome{keys: keys, v: row["v"]}
	}

	benign := exec("x")
	hostile := `" AS x, secret AS injected FROM t -- `
	crafted := exec(hostile)

	// the statement shape may not depend on the content of the argument
	if benign.failed != crafted.failed || !reflect.DeepEqual(benign.keys, crafted.keys) {
		t.Fatalf("the argument changed the statement: benign argument -> failed=%v columns=%v, crafted argument -> failed=%v columns=%v",
			benign.failed, benign.keys, crafted.failed, crafted.keys)
	}
	if !crafted.failed && crafted.v != hostile {
		t.Fatalf("the literal is not the argument: %#v", crafted.v)
	}
}
