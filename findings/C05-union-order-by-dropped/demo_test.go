package genql

import (
	"fmt"
	"testing"
)

// ORDER BY (and the LIMIT window taken from the ordered sequence) on a UNION.
func TestFindingDemo(t *testing.T) {
	data := Map{
		"t": []any{Map{"a": 3}, Map{"a": 1}},
		"u": []any{Map{"a": 2}, Map{"a": 0}},
	}
	run := func(q string) []any {
		query, err := New(data, q)
		if err != nil {
			t.Fatalf("%s: %v", q, err)
		}
		rs, err := query.Exec()
		if err != nil {
			t.Fatalf("%s: %v", q, err)
		}
		return rs
	}
	got := fmt.Sprint(run("SELECT a FROM t UNION ALL SELECT a FROM u ORDER BY a"))
	if want := "[map[a:0] map[a:1] map[a:2] map[a:3]]"; got != want {
		t.Errorf("ORDER BY a on a union: got %s, want %s", got, want)
	}
	got = fmt.Sprint(run("SELECT a FROM t UNION ALL SELECT a FROM u ORDER BY a DESC LIMIT 2 OFFSET 1"))
	if want := "[map[a:2] map[a:1]]"; got != want {
		t.Errorf("ORDER BY a DESC LIMIT 2 OFFSET 1 on a union: got %s, want %s", got, want)
	}
}
