package genql

import (
	"testing"

	sanitize "github.com/vedadiyan/genql/sanitizer"
	"github.com/vedadiyan/sqlparser/v2"
)

// The body of a one-line comment (`# ...` / `-- ...`) is delimited differently
// by the sanitizer's lexer and by the parser: the parser ends it at '\n' only
// and knows no escapes inside it, the sanitizer also ends it at '\r' and skips
// the rune after a backslash.
func TestFindingDemo(t *testing.T) {
	shape := func(sql string) string {
		stmt, err := sqlparser.Parse(sql)
		if err != nil {
			return "parse error: " + err.Error()
		}
		return sqlparser.String(stmt)
	}

	// (a) `$1` after a bare carriage return is still inside the comment for the
	// parser, so it must be left alone (the argument is then unused: an error is
	// fine). It is substituted instead, and a newline in the argument ends the
	// comment: the rest of the argument becomes a WHERE clause.
	tmpl := "SELECT name AS v FROM users # disabled:\r AND name = $1"
	if got := shape(tmpl); got != "select `name` as v from users" {
		t.Fatalf("the template itself should be a plain select, got %s", got)
	}
	out, err := sanitize.SanitizeSQL(tmpl, "x\n WHERE admin = true #")
	if err == nil {
		if got, want := shape(out), shape(tmpl); got != want {
			t.Errorf("(a) the argument altered the statement\n sanitized: %q\n parses to: %s\n want:      %s", out, got, want)
		}
	}

	// (b) a backslash at the end of a one-line comment does not continue the
	// comment for the parser; `$1` on the next line is in a literal position and
	// must be substituted.
	tmpl = "SELECT $1 AS a # see C:\\tmp\\\n, $1 AS v\n FROM dual"
	out, err = sanitize.SanitizeSQL(tmpl, "hello")
	if err != nil {
		t.Fatalf("(b) %v", err)
	}
	q, err := New(Map{}, out)
	if err != nil {
		t.Fatalf("(b) %q: %v", out, err)
	}
	rs, err := q.Exec()
	if err != nil || len(rs) != 1 {
		t.Fatalf("(b) %q: %v %v", out, rs, err)
	}
	if v := rs[0].(Map)["v"]; v != "hello" {
		t.Errorf("(b) sanitized %q: v = %#v, want \"hello\" (the second $1 was not substituted)", out, v)
	}
}
