package genql

import (
	"sync/atomic"
	"testing"
	"time"
)

// C13: the library's own parallelism (ASYNC / SPINASYNC calls) must not race
// with anything: once New / Exec has returned - with a result or with an
// error - no call launched by that query may still be running over the rows of
// the caller's document. On failure paths the calls are not awaited.
func TestFindingDemo(t *testing.T) {
	var (
		returned atomic.Bool  // set by the caller right after New/Exec came back
		late     atomic.Int32 // calls that were still running after that
		calls    atomic.Int32
	)
	RegisterFunction("c13_slow", func(_ *Query, current Map, _ *FunctionOptions, args []any) (any, error) {
		calls.Add(1)
		time.Sleep(40 * time.Millisecond)
		// the call works on the row of the caller's document it was launched for
		for range current {
		}
		if returned.Load() {
			late.Add(1)
		}
		return "done", nil
	})
	document := func() Map {
		users := make([]any, 0)
		for i := 0; i < 4; i++ {
			users = append(users, Map{"id": float64(i), "name": "u"})
		}
		return Map{"users": users, "orders": []any{Map{"user_id": float64(1)}}}
	}
	cases := []struct{ name, query string }{
		// New fails in BuildOrder / BuildGroup / ExecJoin after the derived table launched its calls
		{"build error after a derived table (ORDER BY)", "SELECT t.c FROM (SELECT ASYNC.C13_SLOW(name) AS c FROM users) t ORDER BY t.c + 1"},
		{"build error after a derived table (SPINASYNC, GROUP BY)", "SELECT t.name FROM (SELECT SPINASYNC.C13_SLOW(name), name FROM users) t GROUP BY CONCAT(t.name)"},
		{"join error after a derived side", "SELECT l.c FROM (SELECT ASYNC.C13_SLOW(name) AS c, id FROM users) l JOIN orders r ON l.id = CONCAT(r.user_id)"},
		// Exec fails: the same build error inside a subquery that is prepared for a row
		{"build error in a subquery", "SELECT (SELECT t.c FROM (SELECT ASYNC.C13_SLOW(name) AS c FROM `<-.users`) t ORDER BY t.c + 1) AS x FROM users"},
		// Exec fails: EXISTS over a dual subquery returns before waiting
		{"EXISTS early return", "SELECT name FROM users WHERE EXISTS (SELECT ASYNC.C13_SLOW('a') AS c FROM dual)"},
		// Exec fails: AWAIT reads its arguments in a post-processor and gives up
		{"AWAIT argument error", "SELECT AWAIT(ASYNC.C13_SLOW(name), RAISE('x')) AS c FROM users"},
	}
	for _, c := range cases {
		returned.Store(false)
		late.Store(0)
		calls.Store(0)
		doc := document()
		query, err := New(doc, c.query)
		if err == nil {
			_, err = query.Exec()
		}
		returned.Store(true)
		if err == nil {
			t.Errorf("%s: expected the query to fail", c.name)
		}
		// the query is over: the document is the caller's again. Under -race this
		// write races with the calls that are still reading the rows
		for _, user := range doc["users"].([]any) {
			user.(Map)["name"] = "changed"
		}
		time.Sleep(120 * time.Millisecond) // every call that was launched has finished by now
		if n := late.Load(); n != 0 {
			t.Errorf("%s: %d of %d ASYNC/SPINASYNC calls were still running after the query had returned (%v)", c.name, n, calls.Load(), err)
		}
	}
}
