package genql

import (
	"fmt"
	"testing"
)

// C07, EXISTS clause: `EXISTS (SELECT ... FROM nested WHERE p)` is true iff some
// element of the row's nested array satisfies p.
//
// When the outer row and the nested elements have a column of the same name
// (here `id`), p is evaluated with the OUTER row's value for every element.
func TestFindingDemo(t *testing.T) {
	doc := Map{
		"orders": []any{
			Map{"id": 1.0, "lines": []any{Map{"id": 5.0}}}, // has a line with id 5
			Map{"id": 5.0, "lines": []any{Map{"id": 9.0}}}, // has no line with id 5
		},
	}
	query, err := New(doc, `SELECT id FROM orders WHERE EXISTS (SELECT id FROM lines WHERE id = 5)`)
	if err != nil {
		t.Fatal(err)
	}
	got, err := query.Exec()
	if err != nil {
		t.Fatal(err)
	}

	// reference: some element of the row's nested array satisfies p
	want := []any{}
	for _, row := range doc["orders"].([]any) {
		for _, line := range row.(Map)["lines"].([]any) {
			if line.(Map)["id"] == 5.0 {
				want = append(want, Map{"id": row.(Map)["id"]})
				break
			}
		}
	}
	// the same predicate run standalone on the row agrees with the reference
	for _, row := range doc["orders"].([]any) {
		standalone, err := New(row.(Map), `SELECT id FROM lines WHERE id = 5`)
		if err != nil {
			t.Fatal(err)
		}
		rs, err := standalone.Exec()
		if err != nil {
			t.Fatal(err)
		}
		t.Logf("order %v: standalone subquery returns %v", row.(Map)["id"], rs)
	}
	if fmt.Sprintf("%v", got) != fmt.Sprintf("%v", want) {
		t.Fatalf("EXISTS (SELECT id FROM lines WHERE id = 5): got %v, want %v", got, want)
	}
}
