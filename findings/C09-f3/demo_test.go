package genql

import (
	"encoding/json"
	"reflect"
	"testing"
)

func findingEval(t *testing.T, doc string, selector string) (got any, err error) {
	t.Helper()
	var data any
	if e := json.Unmarshal([]byte(doc), &data); e != nil {
		t.Fatal(e)
	}
	defer func() {
		if r := recover(); r != nil {
			t.Fatalf("%s panicked: %v", selector, r)
		}
	}()
	return ExecReader(data, selector)
}

func findingJSON(t *testing.T, text string) any {
	t.Helper()
	var v any
	if e := json.Unmarshal([]byte(text), &v); e != nil {
		t.Fatal(e)
	}
	return v
}

func findingWant(t *testing.T, doc string, selector string, want string) {
	t.Helper()
	got, err := findingEval(t, doc, selector)
	if err != nil {
		t.Errorf("%s on %s: unexpected error: %v", selector, doc, err)
		return
	}
	if w := findingJSON(t, want); !reflect.DeepEqual(got, w) {
		b, _ := json.Marshal(got)
		t.Errorf("%s on %s: got %s, want %s", selector, doc, b, want)
	}
}

// Quoted keys are literal: the continuation operator inside the quotes is
// part of the key.
func TestFindingDemo(t *testing.T) {
	findingWant(t, `{"a::b":1}`, "'a::b'", `1`)
	findingWant(t, `{"x":{"ns::key":[10,20]}}`, "x.'ns::key'::[1]", `20`)
	// the unquoted form still continues
	findingWant(t, `{"a":{"b":1}}`, "a::b", `1`)
}
