package genql

import (
	"fmt"
	"testing"
)

// C13, on a Query that is executed more than once: the rows an execution has
// returned belong to the caller, who may hand them to another goroutine while
// the query runs again. Exec keeps the post-processors of every earlier
// execution and runs them again, and they write into the rows returned earlier
// (plsql.go: SelectExpr, `data[name] = value` / `delete(data, "<-")`).
//
// Under -race the same scenario with a goroutine reading `first` is reported as
// a data race between SelectExpr.func2 (mapassign) and the reader. Without the
// race detector the write is made visible through a value the caller has put
// into its own row.
func TestFindingDemo(t *testing.T) {
	doc := Map{"users": []any{Map{"name": "a"}, Map{"name": "b"}}}
	query, err := New(doc, "SELECT ASYNC.CONCAT(name, '!') AS c, name FROM users")
	if err != nil {
		t.Fatal(err)
	}
	first, err := query.Exec()
	if err != nil {
		t.Fatal(err)
	}
	if got := fmt.Sprint(first); got != "[map[c:a! name:a] map[c:b! name:b]]" {
		t.Fatalf("unexpected first result %s", got)
	}
	// the result is the caller's: it is post-processed further by the caller
	for _, row := range first {
		row.(Map)["c"] = "redacted"
	}
	second, err := query.Exec()
	if err != nil {
		t.Fatal(err)
	}
	if got := fmt.Sprint(second); got != "[map[c:a! name:a] map[c:b! name:b]]" {
		t.Errorf("unexpected second result %s", got)
	}
	// the second execution must not have touched the rows of the first one
	if got := fmt.Sprint(first); got != "[map[c:redacted name:a] map[c:redacted name:b]]" {
		t.Errorf("the second Exec wrote into the rows returned by the first Exec: %s", got)
	}
}
