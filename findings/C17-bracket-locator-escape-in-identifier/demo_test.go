package genql

import (
	"reflect"
	"testing"
)

// C17, IdiomaticArrays clause: [e1, ...] is a synonym of ARRAY(e1, ...) and
// quoted identifiers are left alone - for identifiers over an alphabet that
// contains the backslash.
func TestFindingDemo(t *testing.T) {
	exec := func(query string, opts ...QueryOption) (any, error) {
		data := Map{"t": []any{Map{"a": 1}}}
		q, err := New(data, query, opts...)
		if err != nil {
			return nil, err
		}
		return q.Exec()
	}
	// the alias is the identifier x\ : inside backticks a backslash is an
	// ordinary character (MySQL and the sqlparser tokenizer agree)
	want, err := exec("SELECT a AS `x\\`, ARRAY(1, 2) AS z FROM t", IdomaticArrays())
	if err != nil {
		t.Fatalf("ARRAY(...) rendering failed: %v", err)
	}
	if rows, ok := want.([]any); !ok || len(rows) == 0 {
		t.Fatalf("unexpected reference result %#v", want)
	}
	got, err := exec("SELECT a AS `x\\`, [1, 2] AS z FROM t", IdomaticArrays())
	if err != nil {
		t.Fatalf("[...] rendering failed: %v (want %#v)", err, want)
	}
	if !reflect.DeepEqual(got, want) {
		t.Fatalf("got %#v, want %#v", got, want)
	}
}
