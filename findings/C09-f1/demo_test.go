package genql

import (
	"encoding/json"
	"reflect"
	"testing"
)

func findingEval(t *testing.T, doc string, selector string) (got any, err error) {
	t.Helper()
	var data any
	if e := json.Unmarshal([]byte(doc), &data); e != nil {
		t.Fatal(e)
	}
	defer func() {
		if r := recover(); r != nil {
			t.Fatalf("%s panicked: %v", selector, r)
		}
	}()
	return ExecReader(data, selector)
}

func findingJSON(t *testing.T, text string) any {
	t.Helper()
	var v any
	if e := json.Unmarshal([]byte(text), &v); e != nil {
		t.Fatal(e)
	}
	return v
}

func findingWant(t *testing.T, doc string, selector string, want string) {
	t.Helper()
	got, err := findingEval(t, doc, selector)
	if err != nil {
		t.Errorf("%s on %s: unexpected error: %v", selector, doc, err)
		return
	}
	if w := findingJSON(t, want); !reflect.DeepEqual(got, w) {
		b, _ := json.Marshal(got)
		t.Errorf("%s on %s: got %s, want %s", selector, doc, b, want)
	}
}

// keep=> is documented as `data[keep=>0:1:2]`: same indexing as without
// keep, but the nesting produced by `each` is preserved.
func TestFindingDemo(t *testing.T) {
	doc := `{"data":[[[1,2,3],[4,5,6]]]}`
	// the README example, literally
	findingWant(t, doc, "data[keep=>0:1:2]", `6`)
	// nesting is preserved: one list per iterated dimension
	findingWant(t, doc, "data[keep=>each:each:2]", `[[3,6]]`)
	// without keep the two iterated dimensions are flattened into one
	findingWant(t, doc, "data[each:each:2]", `[3,6]`)
	// keep after a continuation
	findingWant(t, doc, "data::[keep=>each:0:0]", `[1]`)
	// a quoted key is literal even when it contains the arrow
	findingWant(t, `{"a=>b":{"c":7}}`, "'a=>b'.c", `7`)
}
