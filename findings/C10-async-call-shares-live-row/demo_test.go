package genql

import (
	"sync"
	"testing"
	"time"
)

// C10: "never kills the process from a background goroutine ... ASYNC/SPIN calls",
// with a function registered by the caller.
//
// A custom function receives the current row (README, "Functions"). For a
// query over `dual` the current row IS the registry of the common table
// expressions (query.data), and the engine keeps writing to that map while
// the row is evaluated: every lazy CTE replaces its own entry twice
// (`data[name] = ...` in the thunk of BuildCte). An ASYNC / SPIN / SPINASYNC
// call gets that same map in its goroutine, so a function that merely ranges
// over its row dies with
//
//	fatal error: concurrent map iteration and map write
//
// which cannot be recovered and takes the host process down. The two helper
// functions only make the overlap deterministic (the reader is still ranging
// when a CTE finishes; the query is repeated because the runtime only
// notices the write when it falls into a step of the iteration); neither of them does anything a caller's function
// may not do. On the unmodified tree the test binary is killed (FAIL).
func TestFindingDemo(t *testing.T) {
	var mutex sync.Mutex
	started := make(chan struct{})
	RegisterFunction("c10_keys", func(query *Query, current Map, _ *FunctionOptions, args []any) (any, error) {
		mutex.Lock()
		close(started)
		mutex.Unlock()
		n := 0
		deadline := time.Now().Add(200 * time.Millisecond)
		for time.Now().Before(deadline) {
			for range current {
				n++
			}
		}
		return float64(n), nil
	})
	RegisterFunction("c10_gate", func(query *Query, current Map, _ *FunctionOptions, args []any) (any, error) {
		mutex.Lock()
		gate := started
		mutex.Unlock()
		select {
		case <-gate:
		case <-time.After(2 * time.Second):
		}
		time.Sleep(5 * time.Millisecond)
		return 1.0, nil
	})
	doc := Map{"data": []any{Map{"a": 1.0}}}
	text := "WITH c1 AS (SELECT C10_GATE() AS x), c2 AS (SELECT C10_GATE() AS x), c3 AS (SELECT C10_GATE() AS x), c4 AS (SELECT C10_GATE() AS x), " +
		"c5 AS (SELECT C10_GATE() AS x), c6 AS (SELECT C10_GATE() AS x), c7 AS (SELECT C10_GATE() AS x), c8 AS (SELECT C10_GATE() AS x) " +
		"SELECT ASYNC.C10_KEYS() AS k, c1 AS p1, c2 AS p2, c3 AS p3, c4 AS p4, c5 AS p5, c6 AS p6, c7 AS p7, c8 AS p8"
	for n := 0; n < 10; n++ {
		mutex.Lock()
		started = make(chan struct{})
		mutex.Unlock()
		query, err := New(doc, text)
		if err != nil {
			t.Fatal(err)
		}
		rs, err := query.Exec()
		if err != nil {
			t.Fatal(err)
		}
		if len(rs) != 1 {
			t.Fatalf("expected one row, got %v", rs)
		}
		row := rs[0].(Map)
		if k, ok := row["k"].(float64); !ok || k <= 0 {
			t.Fatalf("expected the number of keys that were read, got %v", row["k"])
		}
	}
}
