package genql

import (
	"testing"

	sanitize "github.com/vedadiyan/genql/sanitizer"
	"github.com/vedadiyan/sqlparser/v2"
)

// The parser treats `// ...` as a one-line comment; the sanitizer's lexer does
// not know this comment form and substitutes `$n` inside it.
func TestFindingDemo(t *testing.T) {
	shape := func(sql string) string {
		stmt, err := sqlparser.Parse(sql)
		if err != nil {
			return "parse error: " + err.Error()
		}
		return sqlparser.String(stmt)
	}

	tmpl := "SELECT name AS v FROM users // AND name = $1"
	if got := shape(tmpl); got != "select `name` as v from users" {
		t.Fatalf("the template itself should be a plain select, got %s", got)
	}
	out, err := sanitize.SanitizeSQL(tmpl, "x\n WHERE admin = true #")
	if err == nil {
		// `$1` is inside a comment: it has to be left alone, the statement must not change
		if got, want := shape(out), shape(tmpl); got != want {
			t.Errorf("the argument altered the statement\n sanitized: %q\n parses to: %s\n want:      %s", out, got, want)
		}
	}

	// the comment body is also lexed as SQL: a quote in it swallows a real placeholder
	tmpl = "SELECT $1 AS v // it's the name\n FROM dual WHERE 'a' = $2"
	out, err = sanitize.SanitizeSQL(tmpl, "n", "a")
	if err != nil {
		t.Errorf("placeholder after a // comment with a quote in it: %v", err)
	} else if got, want := shape(out), "select 'n' as v from dual where 'a' = 'a'"; got != want {
		t.Errorf("sanitized %q parses to %s, want %s", out, got, want)
	}
}
