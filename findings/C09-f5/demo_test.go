package genql

import (
	"encoding/json"
	"reflect"
	"testing"
)

func findingEval(t *testing.T, doc string, selector string) (got any, err error) {
	t.Helper()
	var data any
	if e := json.Unmarshal([]byte(doc), &data); e != nil {
		t.Fatal(e)
	}
	defer func() {
		if r := recover(); r != nil {
			t.Fatalf("%s panicked: %v", selector, r)
		}
	}()
	return ExecReader(data, selector)
}

func findingJSON(t *testing.T, text string) any {
	t.Helper()
	var v any
	if e := json.Unmarshal([]byte(text), &v); e != nil {
		t.Fatal(e)
	}
	return v
}

func findingWant(t *testing.T, doc string, selector string, want string) {
	t.Helper()
	got, err := findingEval(t, doc, selector)
	if err != nil {
		t.Errorf("%s on %s: unexpected error: %v", selector, doc, err)
		return
	}
	if w := findingJSON(t, want); !reflect.DeepEqual(got, w) {
		b, _ := json.Marshal(got)
		t.Errorf("%s on %s: got %s, want %s", selector, doc, b, want)
	}
}

// A missing key yields NULL, also when the reshape step converts it.
func TestFindingDemo(t *testing.T) {
	findingWant(t, `{"user":{"name":"x"}}`, "user{id}", `{"id":null}`)
	findingWant(t, `{"user":{"name":"x"}}`, "user{id|string}", `{"id":null}`)
	findingWant(t, `{"user":{"id":null}}`, "user{id|string}", `{"id":null}`)
	findingWant(t, `{"user":{"name":"x"}}`, "user{id|string}.id", `null`)
}
