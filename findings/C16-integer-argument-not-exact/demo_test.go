package genql

import (
	"math"
	"math/big"
	"testing"

	sanitize "github.com/vedadiyan/genql/sanitizer"
)

// C16: for every integer argument the literal a placeholder is replaced with
// evaluates to exactly the argument supplied (`SELECT $1 AS v FROM dual` echoes
// it). Every numeric literal of the engine is a float64, so an int64 beyond
// 2^53 that has no float64 comes back as a different number - silently: the
// sanitizer neither keeps the value nor rejects it (as it does for NaN and the
// infinities, which have no literal either).
func TestFindingDemo(t *testing.T) {
	for _, arg := range []int64{1 << 53, 1<<53 + 1, -(1<<53 + 1), 1234567890123456789, math.MaxInt64, math.MinInt64} {
		sql, err := sanitize.SanitizeSQL("SELECT $1 AS v FROM dual", arg)
		if err != nil {
			// an argument that cannot be represented may be refused - that is not a wrong echo
			continue
		}
		q, err := New(Map{}, sql)
		if err != nil {
			t.Errorf("%d: %v", arg, err)
			continue
		}
		rs, err := q.Exec()
		if err != nil || len(rs) != 1 {
			t.Errorf("%d: %#v %v", arg, rs, err)
			continue
		}
		exact := new(big.Float).SetInt64(arg)
		var got *big.Float
		switch v := rs[0].(Map)["v"].(type) {
		case float64:
			got = big.NewFloat(v)
		case int64:
			got = new(big.Float).SetInt64(v)
		default:
			t.Errorf("%d: echoed as %#v", arg, v)
			continue
		}
		if exact.Cmp(got) != 0 {
			t.Errorf("argument %d is echoed as %s", arg, got.Text('f', 0))
		}
	}
}
