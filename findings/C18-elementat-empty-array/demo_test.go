package genql

import "testing"

// C18: FIRST / LAST / ELEMENTAT return NULL for an empty or NULL array.
// ELEMENTAT honours that for a NULL array only: for an empty array it reports
// "index out of range", although its own doc comment says
// "returns nil if the array is empty".
func TestFindingDemo(t *testing.T) {
	for _, index := range []float64{0, 1, 5} {
		got, err := ElementAtFunc(&Query{}, Map{}, nil, []any{[]any{}, index})
		if err != nil {
			t.Errorf("ELEMENTAT([], %v): expected NULL, got error %v", index, err)
			continue
		}
		if got != nil {
			t.Errorf("ELEMENTAT([], %v): expected NULL, got %#v", index, got)
		}
	}
	// the siblings, for comparison
	if got, err := FirstFunc(&Query{}, Map{}, nil, []any{[]any{}}); err != nil || got != nil {
		t.Errorf("FIRST([]): expected NULL, got %#v, %v", got, err)
	}
	if got, err := ElementAtFunc(&Query{}, Map{}, nil, []any{nil, 0.0}); err != nil || got != nil {
		t.Errorf("ELEMENTAT(NULL, 0): expected NULL, got %#v, %v", got, err)
	}
	// an index outside a non-empty array stays an error
	if _, err := ElementAtFunc(&Query{}, Map{}, nil, []any{[]any{"a"}, 1.0}); err == nil {
		t.Errorf("ELEMENTAT(['a'], 1): expected an error")
	}

	data := Map{"t": []any{Map{"id": 1, "tags": []any{"x"}}, Map{"id": 2, "tags": []any{}}}}
	query, err := New(data, "SELECT id, ELEMENTAT(tags, 0) AS tag FROM t")
	if err != nil {
		t.Fatal(err)
	}
	rows, err := query.Exec()
	if err != nil {
		t.Fatalf("SELECT id, ELEMENTAT(tags, 0): expected [{1 x} {2 NULL}], got error %v", err)
	}
	if len(rows) != 2 || rows[0].(Map)["tag"] != "x" || rows[1].(Map)["tag"] != nil {
		t.Errorf("SELECT id, ELEMENTAT(tags, 0): expected [{1 x} {2 NULL}], got %#v", rows)
	}
}
