package genql

import (
	"fmt"
	"testing"
)

// C01: LIKE - only % and _ are wildcards; % matches any sequence of characters
// and _ matches any single character. A line feed inside the column value is a
// character like any other.
func TestFindingDemo(t *testing.T) {
	data := Map{"t": []any{
		Map{"id": 1, "s": "ab"},
		Map{"id": 2, "s": "a\nb"},
		Map{"id": 3, "s": "\n"},
		Map{"id": 4, "s": ""},
	}}
	cases := []struct {
		where string
		want  string
	}{
		{"s LIKE '%'", "[1 2 3 4]"},
		{"s NOT LIKE '%'", "[]"},
		{"NOT s LIKE '%'", "[]"},
		{"s LIKE 'a%'", "[1 2]"},
		{"s LIKE '%b'", "[1 2]"},
		{"s LIKE 'a_b'", "[2]"},
		{"s LIKE '_'", "[3]"},
		{"s NOT LIKE 'a_b'", "[1 3 4]"},
	}
	for _, c := range cases {
		q, err := New(data, "SELECT id FROM t WHERE "+c.where)
		if err != nil {
			t.Fatalf("%s: %v", c.where, err)
		}
		rs, err := q.Exec()
		if err != nil {
			t.Fatalf("%s: %v", c.where, err)
		}
		ids := []any{}
		for _, r := range rs {
			ids = append(ids, r.(Map)["id"])
		}
		if got := fmt.Sprint(ids); got != c.want {
			t.Errorf("WHERE %s: got ids %s, want %s", c.where, got, c.want)
		}
	}
}
