package genql

import (
	"fmt"
	"sort"
	"strings"
	"testing"
)

// C04: multi-column string keys. The catalog key of a row is the "%v" text of
// its key columns, each followed by "-". ("2024-01","15") and ("2024","01-15")
// therefore get the same catalog key although no ON conjunct holds for them.
func TestFindingDemo(t *testing.T) {
	ids := func(rs []any) string {
		out := []string{}
		for _, row := range rs {
			m := row.(Map)
			f := func(v any) string {
				if v == nil {
					return "NULL"
				}
				return fmt.Sprintf("%v", v.(Map)["id"])
			}
			out = append(out, f(m["a"])+"|"+f(m["b"]))
		}
		sort.Strings(out)
		return strings.Join(out, " ")
	}
	run := func(data Map, sql string) string {
		q, err := New(data, sql)
		if err != nil {
			t.Fatalf("%s: %v", sql, err)
		}
		rs, err := q.Exec()
		if err != nil {
			t.Fatalf("%s: %v", sql, err)
		}
		return ids(rs)
	}

	// 1. hash path: a pair that satisfies neither conjunct is returned
	data := Map{
		"l": []any{Map{"id": 1, "x": "2024-01", "y": "15"}},
		"r": []any{Map{"id": 2, "x": "2024", "y": "01-15"}},
	}
	on := "a.x = b.x AND a.y = b.y"
	for _, c := range []struct{ join, want string }{
		{"JOIN", ""}, {"HASH_JOIN", ""}, {"PARALLEL JOIN", ""}, {"PARALLEL HASH_JOIN", ""},
		{"STRAIGHT_JOIN", ""}, {"PARALLEL STRAIGHT_JOIN", ""},
		{"LEFT JOIN", "1|NULL"}, {"LEFT HASH_JOIN", "1|NULL"}, {"PARALLEL LEFT JOIN", "1|NULL"},
		{"RIGHT JOIN", "NULL|2"}, {"RIGHT HASH_JOIN", "NULL|2"}, {"PARALLEL RIGHT JOIN", "NULL|2"},
	} {
		if got := run(data, fmt.Sprintf("SELECT * FROM l a %s r b ON %s", c.join, on)); got != c.want {
			t.Errorf("%s ON %s: got [%s], want [%s]", c.join, on, got, c.want)
		}
	}

	// 2. nested loop: two left rows with different keys are put in one group and
	// the ON expression is evaluated with the key of the first one only
	data = Map{
		"l": []any{Map{"id": 1, "x": "2024-01", "y": "15"}, Map{"id": 3, "x": "2024", "y": "01-15"}},
		"r": []any{Map{"id": 2, "x": "2024", "y": "01-15"}},
	}
	on = "a.x = b.x AND a.y >= b.y"
	for _, c := range []struct{ join, want string }{
		{"JOIN", "3|2"}, {"STRAIGHT_JOIN", "3|2"}, {"PARALLEL JOIN", "3|2"},
		{"LEFT JOIN", "1|NULL 3|2"}, {"RIGHT JOIN", "3|2"},
	} {
		if got := run(data, fmt.Sprintf("SELECT * FROM l a %s r b ON %s", c.join, on)); got != c.want {
			t.Errorf("%s ON %s: got [%s], want [%s]", c.join, on, got, c.want)
		}
	}
}
