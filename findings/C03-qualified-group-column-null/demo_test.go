package genql

import (
	"reflect"
	"testing"
)

// C03: in the output row of a group, the grouping columns refer to that group's
// members. A grouping column written with a qualifier (table alias, join side,
// derived table alias) or as a nested path is grouped on correctly, but its value
// cannot be read back from the group row: SELECT yields NULL for it and HAVING
// evaluates it as NULL.
func TestFindingDemo(t *testing.T) {
	data := Map{"t": []any{
		Map{"g": "a", "x": 1.0, "addr": Map{"city": "P"}},
		Map{"g": "b", "x": 2.0, "addr": Map{"city": "Q"}},
		Map{"g": "a", "x": 3.0, "addr": Map{"city": "P"}},
	}}
	run := func(q string) []any {
		t.Helper()
		query, err := New(data, q)
		if err != nil {
			t.Fatalf("%s: %v", q, err)
		}
		rs, err := query.Exec()
		if err != nil {
			t.Fatalf("%s: %v", q, err)
		}
		return rs
	}

	// 1. aliased table, qualified grouping column
	q := "SELECT a.g AS g, COUNT(*) AS c, SUM(a.x) AS s FROM t AS a GROUP BY a.g"
	want := []any{
		Map{"g": "a", "c": 2, "s": 4.0},
		Map{"g": "b", "c": 1, "s": 2.0},
	}
	if got := run(q); !reflect.DeepEqual(got, want) {
		t.Errorf("%s\n got  %v\n want %v", q, got, want)
	}

	// 2. nested grouping column on an unaliased table
	q = "SELECT addr.city AS city, COUNT(*) AS c FROM t GROUP BY addr.city"
	want = []any{
		Map{"city": "P", "c": 2},
		Map{"city": "Q", "c": 1},
	}
	if got := run(q); !reflect.DeepEqual(got, want) {
		t.Errorf("%s\n got  %v\n want %v", q, got, want)
	}

	// 3. HAVING on the qualified grouping column drops every group
	q = "SELECT COUNT(*) AS c FROM t AS a GROUP BY a.g HAVING a.g = 'a'"
	want = []any{
		Map{"c": 2},
	}
	if got := run(q); !reflect.DeepEqual(got, want) {
		t.Errorf("%s\n got  %v\n want %v", q, got, want)
	}
}
