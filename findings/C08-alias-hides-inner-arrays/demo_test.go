package genql

import (
	"encoding/json"
	"reflect"
	"testing"
)

// C08: a multi-dimensional FROM applies the query inside every inner array.
// With a table alias (FROM data AS d) the inner arrays are not entered at all:
// every inner array becomes ONE row {d: <inner array>}.
func TestFindingDemo(t *testing.T) {
	const document = `{"data":[[{"x":1,"y":"a"},{"x":2,"y":"b"}],[],[{"x":3,"y":"c"}]]}`
	load := func() map[string]any {
		var d map[string]any
		if err := json.Unmarshal([]byte(document), &d); err != nil {
			t.Fatal(err)
		}
		return d
	}
	run := func(d map[string]any, q string) any {
		query, err := New(d, q)
		if err != nil {
			t.Fatalf("%s: %v", q, err)
		}
		rs, err := query.Exec()
		if err != nil {
			t.Fatalf("%s: %v", q, err)
		}
		// normalise Go types (nil slice / empty slice, numeric types) through JSON
		b, err := json.Marshal(rs)
		if err != nil {
			t.Fatal(err)
		}
		var out any
		if err := json.Unmarshal(b, &out); err != nil {
			t.Fatal(err)
		}
		if out == nil {
			out = []any{}
		}
		return out
	}

	// what the same WHERE and select list return when run directly on each inner array
	expected := make([]any, 0)
	concatenation := make([]any, 0)
	for _, inner := range load()["data"].([]any) {
		rs := run(map[string]any{"inr": inner}, "SELECT d.x FROM inr AS d WHERE d.x > 1")
		expected = append(expected, rs)
		concatenation = append(concatenation, rs.([]any)...)
	}
	// sanity: the direct runs give [[{x:2}], [], [{x:3}]]
	var literal any
	json.Unmarshal([]byte(`[[{"x":2}],[],[{"x":3}]]`), &literal)
	if !reflect.DeepEqual(expected, literal) {
		t.Fatalf("unexpected direct results %v", expected)
	}

	// clause 2 holds with the alias: mix=> + one query = concatenation of the inner results
	mixed := run(load(), "SELECT d.x FROM `mix=>data` AS d WHERE d.x > 1")
	if !reflect.DeepEqual(mixed, any(concatenation)) {
		t.Errorf("mix=>: expected %v, got %v", concatenation, mixed)
	}

	// clause 1: same nesting, each inner array's result equals the direct run
	nested := run(load(), "SELECT d.x FROM data AS d WHERE d.x > 1")
	if !reflect.DeepEqual(nested, any(expected)) {
		e, _ := json.Marshal(expected)
		g, _ := json.Marshal(nested)
		t.Errorf("SELECT d.x FROM data AS d WHERE d.x > 1\n expected %s\n got      %s", e, g)
	}

	// the same query with an equality filter loses every row
	nested = run(load(), "SELECT d.y FROM data AS d WHERE d.x = 3")
	var want any
	json.Unmarshal([]byte(`[[],[],[{"y":"c"}]]`), &want)
	if !reflect.DeepEqual(nested, want) {
		g, _ := json.Marshal(nested)
		t.Errorf("SELECT d.y FROM data AS d WHERE d.x = 3\n expected [[],[],[{\"y\":\"c\"}]]\n got      %s", g)
	}
}
