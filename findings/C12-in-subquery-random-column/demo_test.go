package genql

import (
	"fmt"
	"testing"
)

// C12: evaluating the same query again on an equal input yields an equal multiset of rows.
func TestFindingDemo(t *testing.T) {
	doc := func() Map {
		return Map{
			"a": []any{Map{"id": 1.0}, Map{"id": 2.0}, Map{"id": 3.0}},
			"t": []any{Map{"p": 1.0, "q": 5.0}, Map{"p": 7.0, "q": 2.0}},
		}
	}
	for _, q := range []string{
		"SELECT id FROM a WHERE id IN (SELECT p, q FROM `<-`.t)",
		"SELECT id FROM a WHERE id NOT IN (SELECT p, q FROM `<-`.t)",
		"SELECT id FROM a WHERE id IN (SELECT * FROM `<-`.t)",
	} {
		seen := map[string]int{}
		for i := 0; i < 200; i++ {
			query, err := New(doc(), q)
			if err != nil {
				t.Fatalf("%s: %v", q, err)
			}
			rs, err := query.Exec()
			if err != nil {
				// rejecting the two-column subquery (as MySQL does) is deterministic too
				seen["error: "+err.Error()]++
				continue
			}
			seen[fmt.Sprintf("%v", rs)]++
		}
		if len(seen) > 1 {
			t.Errorf("%s\n    200 evaluations on equal inputs gave %d different results: %v", q, len(seen), seen)
		}
	}
}
