package genql

import (
	"reflect"
	"sync/atomic"
	"testing"
	"time"
)

// C14: SPINASYNC calls are completed before Exec returns and the value of an
// ASYNC call sits in its row's column. A derived table that is one side of a
// JOIN is built on a throw-away copy of the query: its wait group and its
// post-processors are dropped, nobody waits for the calls of its select list.
func TestFindingDemo(t *testing.T) {
	var started, completed int64
	RegisterFunction("c14f4_slow", func(_ *Query, _ Map, _ *FunctionOptions, args []any) (any, error) {
		atomic.AddInt64(&started, 1)
		time.Sleep(30 * time.Millisecond)
		atomic.AddInt64(&completed, 1)
		return args[0], nil
	})
	data := Map{
		"t": []any{Map{"a": 1.0}, Map{"a": 2.0}, Map{"a": 3.0}},
		"u": []any{Map{"a": 1.0, "b": "x"}, Map{"a": 3.0, "b": "y"}},
	}
	run := func(q string) []any {
		t.Helper()
		atomic.StoreInt64(&started, 0)
		atomic.StoreInt64(&completed, 0)
		query, err := New(data, q)
		if err != nil {
			t.Fatalf("%s: %v", q, err)
		}
		rs, err := query.Exec()
		if err != nil {
			t.Fatalf("%s: %v", q, err)
		}
		return rs
	}

	// SPINASYNC in the select list of the derived table
	q := "SELECT s.a, y.b FROM (SELECT a, SPINASYNC.c14f4_slow(a) AS w FROM t) AS s JOIN u y ON s.a = y.a ORDER BY a"
	run(q)
	if n := atomic.LoadInt64(&completed); n != 3 {
		t.Errorf("%s\n  Exec returned with %d of 3 SPINASYNC calls completed", q, n)
	}
	time.Sleep(150 * time.Millisecond)

	// ASYNC in the select list of the derived table
	plain := run("SELECT s.a, s.v, y.b FROM (SELECT a, c14f4_slow(a) AS v FROM t) AS s JOIN u y ON s.a = y.a ORDER BY a")
	q = "SELECT s.a, s.v, y.b FROM (SELECT a, ASYNC.c14f4_slow(a) AS v FROM t) AS s JOIN u y ON s.a = y.a ORDER BY a"
	async := run(q)
	if n := atomic.LoadInt64(&completed); n != 3 {
		t.Errorf("%s\n  Exec returned with %d of 3 ASYNC calls completed", q, n)
	}
	if !reflect.DeepEqual(plain, async) {
		t.Errorf("%s\n  unqualified: %v\n  ASYNC      : %v", q, plain, async)
	}
	time.Sleep(150 * time.Millisecond)
}
