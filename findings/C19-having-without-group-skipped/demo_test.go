package genql

import (
	"testing"
)

// C19: RAISE firing, or a type error, in the HAVING clause makes New/Exec report
// a failure - never a successful-looking result.
//
// HAVING is only evaluated by the grouping step, and the grouping step returns
// early when there is no GROUP BY. A HAVING clause of a query without GROUP BY
// (a whole-table aggregate, or a plain select) is therefore never evaluated: a
// RAISE or a type error placed there is swallowed and the rows come back as if
// the clause were not there. With GROUP BY the same clause fails as required.
func TestFindingDemo(t *testing.T) {
	doc := Map{
		"t": []any{
			Map{"id": 1.0, "g": "a", "v": 10.0},
			Map{"id": 2.0, "g": "a", "v": 20.0},
		},
	}
	run := func(q string) ([]any, error) {
		query, err := New(doc, q)
		if err != nil {
			return nil, err
		}
		return query.Exec()
	}
	// the reference behaviour: HAVING next to GROUP BY
	for _, q := range []string{
		`SELECT g, SUM(v) AS s FROM t GROUP BY g HAVING RAISE('boom')`,
		`SELECT g, SUM(v) AS s FROM t GROUP BY g HAVING 1 + 'a' > 0`,
	} {
		if rows, err := run(q); err == nil {
			t.Fatalf("%s: expected a failure, got %v", q, rows)
		}
	}
	// the same clauses without GROUP BY
	for _, q := range []string{
		`SELECT SUM(v) AS s FROM t HAVING RAISE('boom')`,
		`SELECT SUM(v) AS s FROM t HAVING 1 + 'a' > 0`,
		`SELECT SUM(v) AS s FROM t HAVING CASE WHEN SUM(v) > 5 THEN RAISE('boom') ELSE true END`,
		`SELECT id FROM t HAVING RAISE('boom')`,
		`SELECT x.s FROM (SELECT SUM(v) AS s FROM t HAVING RAISE('boom')) x`,
	} {
		rows, err := run(q)
		if err == nil {
			t.Errorf("%s: expected a failure, got the successful-looking result %v", q, rows)
			continue
		}
		if rows != nil {
			t.Errorf("%s: rows returned together with the error: %v", q, rows)
		}
	}
}
