package genql

import (
	"fmt"
	"testing"
	"time"
)

// C14: ASYNC changes when a call runs, not what the query returns.
// An ASYNC column of a derived table (or of a subquery) is read by the
// enclosing query before the call has delivered its value.
func TestFindingDemo(t *testing.T) {
	RegisterFunction("c14f1_double", func(_ *Query, _ Map, _ *FunctionOptions, args []any) (any, error) {
		time.Sleep(2 * time.Millisecond)
		return args[0].(float64) * 2, nil
	})
	data := func() Map {
		return Map{
			"t": []any{Map{"a": 1.0}, Map{"a": 2.0}, Map{"a": 3.0}},
			"u": []any{Map{"id": 2.0, "b": "x"}, Map{"id": 4.0, "b": "y"}, Map{"id": 6.0, "b": "z"}},
		}
	}
	run := func(q string) string {
		query, err := New(data(), q)
		if err != nil {
			return "New: " + err.Error()
		}
		rs, err := query.Exec()
		if err != nil {
			return "Exec: " + err.Error()
		}
		return fmt.Sprintf("%v", rs)
	}
	templates := []string{
		// outer WHERE over the ASYNC column
		"SELECT d.x AS x FROM (SELECT %sc14f1_double(a) AS x FROM t) d WHERE d.x > 2",
		// outer arithmetic over the ASYNC column
		"SELECT d.x + 1 AS z FROM (SELECT %sc14f1_double(a) AS x FROM t) d",
		// outer aggregate over the ASYNC column
		"SELECT SUM(d.x) AS s FROM (SELECT %sc14f1_double(a) AS x FROM t) d",
		// outer GROUP BY over the ASYNC column
		"SELECT d.x AS x, COUNT(*) AS c FROM (SELECT %sc14f1_double(1) AS x FROM t) d GROUP BY d.x",
		// join side: ON over the ASYNC column
		"SELECT l.x AS x, r.b AS b FROM (SELECT %sc14f1_double(a) AS x FROM t) l JOIN u r ON l.x = r.id ORDER BY x",
		// subquery rows consumed by IN
		"SELECT a FROM t WHERE a IN (SELECT %sc14f1_double(a) AS x FROM `<-t`)",
	}
	for _, template := range templates {
		want := run(fmt.Sprintf(template, ""))
		got := run(fmt.Sprintf(template, "ASYNC."))
		if got != want {
			t.Errorf("%s\n   unqualified: %s\n   ASYNC:       %s", template, want, got)
		}
	}
}
