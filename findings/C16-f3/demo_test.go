package genql

import (
	"testing"

	sanitize "github.com/vedadiyan/genql/sanitizer"
)

// For the parser (as for MySQL) `--` starts a comment only when it is followed
// by whitespace or the end of the input; `1--$1` is `1 - (-$1)`. The sanitizer
// takes every `--` as a comment start and never sees the placeholder.
func TestFindingDemo(t *testing.T) {
	out, err := sanitize.SanitizeSQL("SELECT 1--$1 AS v FROM dual", int64(5))
	if err != nil {
		t.Fatalf("placeholder in a literal position was not substituted: %v", err)
	}
	q, err := New(Map{}, out)
	if err != nil {
		t.Fatalf("%q: %v", out, err)
	}
	rs, err := q.Exec()
	if err != nil || len(rs) != 1 {
		t.Fatalf("%q: %v %v", out, rs, err)
	}
	if v := rs[0].(Map)["v"]; v != float64(6) {
		t.Errorf("sanitized %q: v = %#v, want 6", out, v)
	}
}
