package genql

import (
	"encoding/json"
	"reflect"
	"strconv"
	"testing"
)

func findingEval(t *testing.T, doc string, selector string) (got any, err error) {
	t.Helper()
	var data any
	if e := json.Unmarshal([]byte(doc), &data); e != nil {
		t.Fatal(e)
	}
	defer func() {
		if r := recover(); r != nil {
			t.Fatalf("%s panicked: %v", selector, r)
		}
	}()
	return ExecReader(data, selector)
}

func findingJSON(t *testing.T, text string) any {
	t.Helper()
	var v any
	if e := json.Unmarshal([]byte(text), &v); e != nil {
		t.Fatal(e)
	}
	return v
}

func findingWant(t *testing.T, doc string, selector string, want string) {
	t.Helper()
	got, err := findingEval(t, doc, selector)
	if err != nil {
		t.Errorf("%s on %s: unexpected error: %v", selector, doc, err)
		return
	}
	if w := findingJSON(t, want); !reflect.DeepEqual(got, w) {
		b, _ := json.Marshal(got)
		t.Errorf("%s on %s: got %s, want %s", selector, doc, b, want)
	}
}

// {k|string} converts a number to its decimal text; {k|number} reads it back.
func TestFindingDemo(t *testing.T) {
	for _, text := range []string{"7", "1.5", "1e20", "0.0000001", "9223372036854775808", "-1e19", "123456.789"} {
		doc := `{"id":` + text + `}`
		got, err := findingEval(t, doc, "{id|string}.id")
		if err != nil {
			t.Errorf("%s: %v", doc, err)
			continue
		}
		str, ok := got.(string)
		if !ok {
			t.Errorf("%s: got %T, want a string", doc, got)
			continue
		}
		want, _ := strconv.ParseFloat(text, 64)
		back, err := strconv.ParseFloat(str, 64)
		if err != nil || back != want {
			t.Errorf("{id|string} on %s: got %q, which does not denote %v", doc, str, want)
		}
	}
}
