package genql

import (
	"testing"

	sanitize "github.com/vedadiyan/genql/sanitizer"
)

// The parser's block comments do not nest: `/* a /* b */` is a complete
// comment. The sanitizer counts nesting levels (PostgreSQL rule) and stays in
// the comment, so the placeholder that follows is never substituted.
func TestFindingDemo(t *testing.T) {
	out, err := sanitize.SanitizeSQL("SELECT 1 /* see /* above */ + $1 AS v FROM dual", int64(5))
	if err != nil {
		t.Fatalf("placeholder in a literal position was not substituted: %v", err)
	}
	q, err := New(Map{}, out)
	if err != nil {
		t.Fatalf("%q: %v", out, err)
	}
	rs, err := q.Exec()
	if err != nil || len(rs) != 1 {
		t.Fatalf("%q: %v %v", out, rs, err)
	}
	if v := rs[0].(Map)["v"]; v != float64(6) {
		t.Errorf("sanitized %q: v = %#v, want 6", out, v)
	}
}
