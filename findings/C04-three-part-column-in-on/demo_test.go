package genql

import (
	"fmt"
	"sort"
	"strings"
	"testing"
)

// C04: the answer must not depend on the column names of the ON conjuncts. A
// column of a nested object (a.k.v, which WHERE and SELECT resolve as the path
// k.v of the row of a) is not recognised as a column of its table by the join:
// every strategy reads NULL for it on both sides.
func TestFindingDemo(t *testing.T) {
	doc := Map{
		"l": []any{
			Map{"id": 1, "k": Map{"v": 1.0}},
			Map{"id": 2, "k": Map{"v": 2.0}},
			Map{"id": 3, "k": Map{"v": 3.0}},
		},
		"r": []any{
			Map{"id": 10, "k": Map{"v": 1.0}, "w": 1.0},
			Map{"id": 11, "k": Map{"v": 1.0}, "w": 1.0},
			Map{"id": 12, "k": Map{"v": 3.0}, "w": 3.0},
			Map{"id": 13, "k": Map{"v": 4.0}, "w": 4.0},
		},
	}
	run := func(sql string) string {
		query, err := New(doc, sql)
		if err != nil {
			t.Fatalf("%s: %v", sql, err)
		}
		rows, err := query.Exec()
		if err != nil {
			t.Fatalf("%s: %v", sql, err)
		}
		out := make([]string, 0, len(rows))
		for _, row := range rows {
			out = append(out, fmt.Sprintf("%v/%v", row.(Map)["aid"], row.(Map)["bid"]))
		}
		sort.Strings(out)
		return strings.Join(out, " ")
	}
	// the engine resolves the nested column everywhere else
	if got := run("SELECT a.id AS aid, a.k.v AS bid FROM l a WHERE a.k.v >= 2"); got != "2/2 3/3" {
		t.Fatalf("WHERE on a nested column: %s", got)
	}
	const (
		inner = "1/10 1/11 3/12"
		left  = "1/10 1/11 2/<nil> 3/12"
		right = "1/10 1/11 3/12 <nil>/13"
		less  = "1/12 1/13 2/12 2/13 3/13"
	)
	for _, tc := range []struct{ join, on, want string }{
		// the flat column b.w holds the same values as b.k.v: these are the answers
		{"JOIN", "a.k.v = b.w", inner},
		{"JOIN", "a.k.v = b.k.v", inner},
		{"HASH_JOIN", "b.k.v = a.k.v", inner},
		{"PARALLEL HASH_JOIN", "a.k.v = b.k.v", inner},
		{"STRAIGHT_JOIN", "a.k.v = b.k.v", inner},
		{"JOIN", "a.k.v <= b.k.v AND a.k.v >= b.k.v", inner},
		{"LEFT JOIN", "a.k.v = b.k.v", left},
		{"LEFT JOIN", "a.id = b.k.v", left},
		{"RIGHT JOIN", "a.k.v = b.k.v", right},
		{"PARALLEL RIGHT JOIN", "b.k.v = a.k.v", right},
		{"JOIN", "a.k.v < b.k.v", less},
		{"PARALLEL JOIN", "b.k.v > a.k.v", less},
	} {
		sql := fmt.Sprintf("SELECT a.id AS aid, b.id AS bid FROM l a %s r b ON %s", tc.join, tc.on)
		if got := run(sql); got != tc.want {
			t.Errorf("%s\n want %s\n got  %s", sql, tc.want, got)
		}
	}
}
