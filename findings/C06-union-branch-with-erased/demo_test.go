package genql

import (
	"reflect"
	"testing"
)

// A parenthesised union branch that declares its own WITH loses it: the branch
// silently yields no rows, so `A UNION ALL B` is not rows(A) followed by rows(B).
func TestFindingDemo(t *testing.T) {
	data := Map{
		"v": []any{Map{"a": "x"}, Map{"a": "y"}},
		"w": []any{Map{"a": "z"}},
	}
	for _, tc := range []struct {
		q    string
		want []any
	}{
		{
			`(WITH c AS (SELECT a FROM v) SELECT * FROM c) UNION ALL SELECT a FROM w`,
			[]any{Map{"a": "x"}, Map{"a": "y"}, Map{"a": "z"}},
		},
		{
			`SELECT a FROM w UNION ALL (WITH c AS (SELECT a FROM v) SELECT * FROM c)`,
			[]any{Map{"a": "z"}, Map{"a": "x"}, Map{"a": "y"}},
		},
		{
			`(WITH c AS (SELECT a FROM v) SELECT * FROM c) UNION (WITH c AS (SELECT a FROM w) SELECT * FROM c)`,
			[]any{Map{"a": "x"}, Map{"a": "y"}, Map{"a": "z"}},
		},
	} {
		query, err := New(data, tc.q)
		if err != nil {
			t.Fatalf("%s: %v", tc.q, err)
		}
		got, err := query.Exec()
		if err != nil {
			t.Fatalf("%s: %v", tc.q, err)
		}
		if !reflect.DeepEqual(got, tc.want) {
			t.Errorf("%s\n got  %v\n want %v", tc.q, got, tc.want)
		}
	}
	// sanity: the branch alone works
	alone, err := New(data, `WITH c AS (SELECT a FROM v) SELECT * FROM c`)
	if err != nil {
		t.Fatal(err)
	}
	got, err := alone.Exec()
	if err != nil {
		t.Fatal(err)
	}
	if want := []any{Map{"a": "x"}, Map{"a": "y"}}; !reflect.DeepEqual(got, want) {
		t.Fatalf("the branch alone: got %v want %v", got, want)
	}
}
