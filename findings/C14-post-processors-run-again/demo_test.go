package genql

import (
	"sync/atomic"
	"testing"
)

// C14: once Exec returns, every ASYNC call has been invoked exactly once per
// row. The post-processors of an execution stay registered on the Query, so a
// second Exec of the same Query runs the first execution's post-processors
// again. The post-processor of AWAIT evaluates its argument, which launches
// the awaited ASYNC call once more for every row of every earlier execution.
func TestFindingDemo(t *testing.T) {
	var calls int64
	RegisterFunction("c14f8_double", func(_ *Query, _ Map, _ *FunctionOptions, args []any) (any, error) {
		atomic.AddInt64(&calls, 1)
		return args[0].(float64) * 2, nil
	})
	data := Map{"t": []any{Map{"a": 1.0}, Map{"a": 2.0}, Map{"a": 3.0}}}
	query, err := New(data, "SELECT AWAIT(ASYNC.c14f8_double(a)) AS x FROM t")
	if err != nil {
		t.Fatal(err)
	}
	for round := 1; round <= 3; round++ {
		atomic.StoreInt64(&calls, 0)
		rs, err := query.Exec()
		if err != nil {
			t.Fatal(err)
		}
		if len(rs) != 3 {
			t.Fatalf("round %d: %v", round, rs)
		}
		if n := atomic.LoadInt64(&calls); n != 3 {
			t.Errorf("execution %d: the ASYNC call was invoked %d times for 3 rows", round, n)
		}
	}
}
