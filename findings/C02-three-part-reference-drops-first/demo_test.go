package genql

import (
	"testing"
)

// C02: a nested-path reference yields the value at that path of the row. A
// reference with three components (`n.x.y`) loses its first component: the
// engine reads the path `x.y`, i.e. the data of another column of the row (or
// NULL when the row has no `x`).
func TestFindingDemo(t *testing.T) {
	data := Map{"t": []any{
		Map{"n": Map{"x": Map{"y": 1.0}}, "x": Map{"y": 100.0}},
		Map{"n": Map{"x": Map{"y": 2.0}}},
	}}
	q, err := New(data, "SELECT n.x.y AS r, n.x.y + 1 AS s FROM t")
	if err != nil {
		t.Fatal(err)
	}
	rs, err := q.Exec()
	if err != nil {
		t.Fatal(err)
	}
	if len(rs) != 2 {
		t.Fatalf("expected 2 rows, got %v", rs)
	}
	for i, want := range []float64{1, 2} {
		row := rs[i].(Map)
		if row["r"] != want {
			t.Errorf("row %d: n.x.y = %#v, want %v", i, row["r"], want)
		}
		if row["s"] != want+1 {
			t.Errorf("row %d: n.x.y + 1 = %#v, want %v", i, row["s"], want+1)
		}
	}
}
