package genql

import (
	"testing"
)

// C10: "never kills the process from a background goroutine ... PARALLEL joins".
//
// The ON expression of a PARALLEL join is evaluated by one goroutine per key
// of the driving side. `isParallelSafe` lets an expression through when it is
// made of column comparisons only - but a column can name a common table
// expression (the `dual` row is the CTE registry): ValueOf then calls the lazy
// CTE thunk from every goroutine, and the thunk writes the shared registry map
// (`data[name] = ...`, plsql.go BuildCte) without any synchronisation:
//
//	fatal error: concurrent map writes
//
// The error is not recoverable, the host process dies. On the unmodified tree
// the test binary is killed (go test reports FAIL); it is a race, so the query
// is repeated - it usually dies in the first few rounds.
func TestFindingDemo(t *testing.T) {
	rows := make([]any, 0)
	for i := 0; i < 20000; i++ {
		rows = append(rows, Map{"a": float64(i)})
	}
	doc := Map{"data": rows}
	for n := 0; n < 40; n++ {
		for _, text := range []string{
			"WITH c1 AS (SELECT 1 AS x) SELECT * FROM data u PARALLEL LEFT JOIN dual ON u.a > c1",
			"WITH c1 AS (SELECT 1 AS x) SELECT * FROM dual PARALLEL JOIN data u ON c1 < u.a",
		} {
			query, err := New(doc, text)
			if err != nil {
				// an error is an acceptable outcome, a dead process is not
				continue
			}
			_, _ = query.Exec()
		}
	}
}
