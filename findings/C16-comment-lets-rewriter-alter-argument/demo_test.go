package genql

import (
	"testing"

	sanitize "github.com/vedadiyan/genql/sanitizer"
)

// C16: the literal a placeholder is replaced with evaluates to exactly the
// argument supplied (`SELECT $1 AS v FROM dual` echoes it), whatever the
// argument holds and whatever else the template holds.
//
// The template has a comment with an apostrophe (a quote) in front of the
// placeholder. The placeholder lexer and the parser skip the comment; the
// pre-processors of the options IdomaticArrays() and PostgresEscapingDialect()
// do not know comments, take the apostrophe for the start of a string, are out
// of step from there on and rewrite the CONTENT of the substituted literal.
func TestFindingDemo(t *testing.T) {
	echo := func(tmpl string, arg string, option QueryOption) (any, error) {
		sql, err := sanitize.SanitizeSQL(tmpl, arg)
		if err != nil {
			t.Fatalf("sanitize: %v", err)
		}
		q, err := New(Map{}, sql, option)
		if err != nil {
			return nil, err
		}
		rs, err := q.Exec()
		if err != nil {
			return nil, err
		}
		if len(rs) != 1 {
			t.Fatalf("%s: expected one row, got %#v", sql, rs)
		}
		return rs[0].(Map)["v"], nil
	}
	cases := []struct {
		name   string
		tmpl   string
		arg    string
		option QueryOption
	}{
		{"arrays, block comment", "SELECT /* the user's tag */ $1 AS v FROM dual", "[1]", IdomaticArrays()},
		{"arrays, line comment", "-- the user's tag\nSELECT $1 AS v FROM dual", "a[0]", IdomaticArrays()},
		{"arrays, closing bracket", "SELECT /* the user's tag */ $1 AS v FROM dual", "]", IdomaticArrays()},
		{"postgres, apostrophe", "SELECT /* the user's tag */ $1 AS v FROM dual", `say "hi"`, PostgresEscapingDialect()},
		{"postgres, double quote", "SELECT /* 5\" wide */ $1 AS v FROM dual", `a"b`, PostgresEscapingDialect()},
	}
	for _, c := range cases {
		v, err := echo(c.tmpl, c.arg, c.option)
		if err != nil {
			t.Errorf("%s: argument %q is not echoed: %v", c.name, c.arg, err)
			continue
		}
		if v != c.arg {
			t.Errorf("%s: argument %q is echoed as %#v", c.name, c.arg, v)
		}
	}
}
