package genql

import (
	"encoding/json"
	"testing"
)

// C12: evaluating the same query again on an equal input yields an equal
// multiset of rows.
//
// The rows of a join are produced by ranging over Go maps (the hashed catalogs
// of the two sides), i.e. in a random order. The property tolerates a different
// *sequence* for joins - but every later step that depends on the position of a
// row turns the random order into a different *multiset*: LIMIT / OFFSET keep
// different rows, and GROUP BY builds its `*` member lists in a different order.
func TestFindingDemo(t *testing.T) {
	doc := func() Map {
		t1, u1 := []any{}, []any{}
		for i := 1; i <= 6; i++ {
			t1 = append(t1, Map{"a": float64(i)})
			u1 = append(u1, Map{"a": float64(i), "c": float64(10 * i)})
		}
		return Map{"t": t1, "u": u1}
	}
	queries := []string{
		"SELECT x.a AS a, y.c AS c FROM t x JOIN u y ON x.a = y.a LIMIT 1",
		"SELECT x.a AS a, y.c AS c FROM t x LEFT JOIN u y ON x.a >= y.a LIMIT 2 OFFSET 3",
	}
	for _, q := range queries {
		seen := map[string]int{}
		for i := 0; i < 50; i++ {
			query, err := New(doc(), q)
			if err != nil {
				t.Fatalf("%s: %v", q, err)
			}
			rs, err := query.Exec()
			if err != nil {
				t.Fatalf("%s: %v", q, err)
			}
			// LIMIT 1 / a two row window: compare the rows as an (order-free) multiset
			set := map[string]int{}
			for _, row := range rs {
				b, _ := json.Marshal(row)
				set[string(b)]++
			}
			b, _ := json.Marshal(set) // encoding/json sorts map keys
			seen[string(b)]++
		}
		if len(seen) != 1 {
			t.Errorf("%s\n   50 evaluations of the same query on equal inputs gave %d different multisets of rows: %v", q, len(seen), seen)
		}
	}
}
