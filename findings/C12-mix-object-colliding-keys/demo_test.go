package genql

import (
	"fmt"
	"testing"
)

// C12: evaluating the same query again on an equal input yields an equal multiset of rows.
func TestFindingDemo(t *testing.T) {
	doc := func() Map {
		return Map{"mx": Map{"a_b": 1.0, "a": Map{"b": 2.0}}}
	}
	for _, q := range []string{
		"SELECT * FROM `mix=>mx`",
		"SELECT `mix=>mx` AS m FROM dual",
	} {
		seen := map[string]int{}
		for i := 0; i < 200; i++ {
			query, err := New(doc(), q)
			if err != nil {
				t.Fatalf("%s: %v", q, err)
			}
			rs, err := query.Exec()
			if err != nil {
				t.Fatalf("%s: %v", q, err)
			}
			seen[fmt.Sprintf("%v", rs)]++
		}
		if len(seen) > 1 {
			t.Errorf("%s\n    200 evaluations on equal inputs gave %d different results: %v", q, len(seen), seen)
		}
	}
	// the selector layer on its own
	seen := map[string]int{}
	for i := 0; i < 200; i++ {
		rs, err := ExecReader(doc(), "mix=>mx")
		if err != nil {
			t.Fatal(err)
		}
		seen[fmt.Sprintf("%v", rs)]++
	}
	if len(seen) > 1 {
		t.Errorf("ExecReader(doc, \"mix=>mx\"): %v", seen)
	}
}
