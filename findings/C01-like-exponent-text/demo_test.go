package genql

import (
	"fmt"
	"testing"
)

// C01: LIKE without wildcards keeps the rows whose value has that text, and
// `%`/`_` are matched against the value's ordinary (decimal) text. The engine
// matches the pattern against the %v rendering of the number instead, which has
// an exponent from 1e6 upwards and below 1e-4 ("1e+06", "1.5e+06", "1e-05").
func TestFindingDemo(t *testing.T) {
	data := Map{
		"t": []any{
			Map{"id": 0.0, "n": 1000000.0},
			Map{"id": 1.0, "n": 1500000.0},
			Map{"id": 2.0, "n": 100.0},
			Map{"id": 3.0, "n": 0.00001},
			Map{"id": 4.0, "n": float32(20000000)},
		},
	}
	cases := []struct {
		where string
		want  string
	}{
		// the same constant under `=` already selects row 0 (a number is compared with a string by its decimal text)
		{"n = '1000000'", "[map[id:0]]"},
		{"n LIKE '1000000'", "[map[id:0]]"},
		{"n LIKE '1%0'", "[map[id:0] map[id:1] map[id:2]]"},
		{"n LIKE '15%'", "[map[id:1]]"},
		{"n LIKE '0.00001'", "[map[id:3]]"},
		{"n LIKE '2%0'", "[map[id:4]]"},
		{"n NOT LIKE '%e%'", "[map[id:0] map[id:1] map[id:2] map[id:3] map[id:4]]"},
		{"n NOT LIKE '1%0'", "[map[id:3] map[id:4]]"},
	}
	for _, c := range cases {
		q, err := New(data, "SELECT id FROM t WHERE "+c.where)
		if err != nil {
			t.Fatalf("%s: %v", c.where, err)
		}
		rs, err := q.Exec()
		if err != nil {
			t.Fatalf("%s: %v", c.where, err)
		}
		if got := fmt.Sprintf("%v", rs); got != c.want {
			t.Errorf("WHERE %s: got %s, want %s", c.where, got, c.want)
		}
	}
}
