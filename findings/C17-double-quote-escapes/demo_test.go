package genql

import (
	"fmt"
	"testing"
)

// C17: under PostgresEscapingDialect a query written with double-quoted
// identifiers returns what the same query with backtick identifiers returns
// without the option - for every identifier over an alphabet that contains
// the double quote and the backslash.
func TestFindingDemo(t *testing.T) {
	data := Map{"t": []any{Map{"a": 1, "b": "x"}, Map{"a": 2, "b": "y"}}}
	run := func(query string, options ...QueryOption) string {
		q, err := New(data, query, options...)
		if err != nil {
			return "New: " + err.Error()
		}
		rs, err := q.Exec()
		if err != nil {
			return "Exec: " + err.Error()
		}
		return fmt.Sprintf("%v", rs)
	}
	cases := []struct {
		name      string
		postgres  []string // accepted spellings: one of them has to work
		backticks string
		expected  string
	}{
		{
			// the identifier x"y : PostgreSQL spells the quote inside "..." by doubling it
			name:      "doubled double quote",
			postgres:  []string{`SELECT a AS "x""y" FROM "t"`},
			backticks: "SELECT a AS `x\"y` FROM `t`",
			expected:  `[map[x"y:1] map[x"y:2]]`,
		},
		{
			// the identifier x\ : a backslash is an ordinary character of an
			// identifier, in PostgreSQL's "..." as in the library's `...`; a rewrite
			// with backslash escapes would spell it "x\\". Neither is accepted: the
			// identifier cannot be written in double quotes at all
			name:      "trailing backslash",
			postgres:  []string{`SELECT a AS "x\", b AS "y" FROM "t"`, `SELECT a AS "x\\", b AS "y" FROM "t"`},
			backticks: "SELECT a AS `x\\`, b AS `y` FROM `t`",
			expected:  `[map[x\:1 y:x] map[x\:2 y:y]]`,
		},
	}
	for _, c := range cases {
		if reference := run(c.backticks); reference != c.expected {
			t.Fatalf("%s: the backtick query returned %s, expected %s", c.name, reference, c.expected)
		}
		ok := false
		report := ""
		for _, query := range c.postgres {
			got := run(query, PostgresEscapingDialect())
			ok = ok || got == c.expected
			report += fmt.Sprintf("\n  query    %q\n  got      %s", query, got)
		}
		if !ok {
			t.Errorf("%s: expected %s%s", c.name, c.expected, report)
		}
	}
}
