package genql

import (
	"errors"
	"fmt"
	"testing"
)

// C19: after a failed Exec the library stays usable - the next execution behaves
// exactly as if the failed one had never run.
//
// A CTE that is only referenced from a row-scoped subquery is evaluated lazily,
// during Exec. When its body fails once (a user function returning an error at
// its k-th invocation), the CTE entry of the query's registry is left pointing at
// the "recursive reference" marker: every later Exec of the same Query fails with
// "recursive reference to the common table expression c", although nothing is
// recursive and the fault is gone.
func TestFindingDemo(t *testing.T) {
	calls, failAt := 0, 0
	RegisterFunction("c19_f1_probe", func(_ *Query, _ Map, _ *FunctionOptions, args []any) (any, error) {
		calls++
		if calls == failAt {
			return nil, errors.New("injected fault")
		}
		return args[0], nil
	})
	doc := Map{
		"t": []any{Map{"id": 1.0}, Map{"id": 2.0}, Map{"id": 3.0}},
		"u": []any{Map{"id": 1.0}, Map{"id": 2.0}, Map{"id": 4.0}},
	}
	const q = "WITH c AS (SELECT c19_f1_probe(id) AS id FROM t) " +
		"SELECT id FROM u WHERE id IN (SELECT id FROM `<-.c`)"

	// what an undisturbed query returns
	fresh, err := New(doc, q)
	if err != nil {
		t.Fatal(err)
	}
	want, err := fresh.Exec()
	if err != nil {
		t.Fatal(err)
	}
	if len(want) != 2 {
		t.Fatalf("unexpected baseline %v", want)
	}

	for k := 1; k <= 3; k++ {
		query, err := New(doc, q)
		if err != nil {
			t.Fatal(err)
		}
		// the k-th invocation of the function fails: Exec must fail, without rows
		calls, failAt = 0, k
		rows, err := query.Exec()
		if err == nil || rows != nil {
			t.Fatalf("k=%d: expected a failure without rows, got %v, %v", k, rows, err)
		}
		// the fault is gone: the next execution behaves as if the failed one had never run
		calls, failAt = 0, 0
		rows, err = query.Exec()
		if err != nil {
			t.Fatalf("k=%d: Exec after a failed Exec: %v", k, err)
		}
		if fmt.Sprint(rows) != fmt.Sprint(want) {
			t.Fatalf("k=%d: Exec after a failed Exec returned %v, want %v", k, rows, want)
		}
	}
}
