package genql

import (
	"reflect"
	"testing"
)

// `[i:j]` indexes successive dimensions: data[0:0] is data[0][0], and
// data[0:each] holds the elements of data[0]. No dimension iterates more than
// once, so there is nothing to flatten.
func TestFindingDemo(t *testing.T) {
	doc := func() map[string]any {
		return map[string]any{
			"d": []any{
				[]any{
					[]any{[]any{1.0}, []any{2.0}},
					[]any{[]any{3.0}, []any{4.0}},
				},
			},
		}
	}
	want, err := ExecReader(doc(), "d[0][0]")
	if err != nil {
		t.Fatal(err)
	}
	if !reflect.DeepEqual(want, []any{[]any{1.0}, []any{2.0}}) {
		t.Fatalf("d[0][0]: unexpected %v", want)
	}
	got, err := ExecReader(doc(), "d[0:0]")
	if err != nil {
		t.Fatal(err)
	}
	if !reflect.DeepEqual(got, want) {
		t.Errorf("d[0:0] = %v, want d[0][0] = %v", got, want)
	}
	// one iterating dimension: the result lists the elements of d[0] as they are
	wantEach := []any{
		[]any{[]any{1.0}, []any{2.0}},
		[]any{[]any{3.0}, []any{4.0}},
	}
	got, err = ExecReader(doc(), "d[0:each]")
	if err != nil {
		t.Fatal(err)
	}
	if !reflect.DeepEqual(got, wantEach) {
		t.Errorf("d[0:each] = %v, want %v", got, wantEach)
	}
	// each over the first dimension, index 0 in the second: [d[0][0]]
	got, err = ExecReader(doc(), "d[each:0]")
	if err != nil {
		t.Fatal(err)
	}
	if !reflect.DeepEqual(got, []any{[]any{[]any{1.0}, []any{2.0}}}) {
		t.Errorf("d[each:0] = %v, want [d[0][0]] = %v", got, []any{want})
	}
}
