package genql

import (
	"reflect"
	"testing"
)

// A missing key yields NULL: {k}, {k|string} and {k|number} agree on that.
func TestFindingDemo(t *testing.T) {
	doc := map[string]any{
		"users": []any{
			map[string]any{"id": "7", "name": "a"},
			map[string]any{"name": "b"},
			map[string]any{"id": nil, "name": "c"},
		},
	}
	for _, selector := range []string{"users{id}", "users{id|string}"} {
		if _, err := ExecReader(doc, selector); err != nil {
			t.Fatalf("%s: %v", selector, err)
		}
	}
	got, err := ExecReader(doc, "users{id|number}")
	if err != nil {
		t.Fatalf("users{id|number}: %v", err)
	}
	want := []any{
		map[string]any{"id": 7.0},
		map[string]any{"id": nil},
		map[string]any{"id": nil},
	}
	if !reflect.DeepEqual(got, want) {
		t.Errorf("users{id|number} = %v, want %v", got, want)
	}
}
