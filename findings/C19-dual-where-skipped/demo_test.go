package genql

import (
	"testing"
)

// C19: RAISE firing on a row, or a type error, in the WHERE clause makes New/Exec
// report a failure - never a successful-looking result.
//
// On the one-row table `dual` the WHERE clause is never evaluated: a RAISE or a
// type error placed there is swallowed and the row is returned as if the clause
// were not there, at the top level as well as in a row-scoped subquery. The same
// clause on an ordinary one-row table fails as the property requires.
func TestFindingDemo(t *testing.T) {
	doc := Map{
		"one": Map{"id": 9.0},
		"t":   []any{Map{"id": 1.0}, Map{"id": 2.0}},
	}
	run := func(q string) ([]any, error) {
		query, err := New(doc, q)
		if err != nil {
			return nil, err
		}
		return query.Exec()
	}
	// the reference behaviour: an ordinary one-row source
	for _, q := range []string{
		`SELECT id FROM one WHERE RAISE('boom')`,
		`SELECT id FROM one WHERE 1 + 'a' > 0`,
		`SELECT id FROM one WHERE 'not a boolean'`,
	} {
		if rows, err := run(q); err == nil {
			t.Fatalf("%s: expected a failure, got %v", q, rows)
		}
	}
	// the same clauses on dual
	for _, q := range []string{
		`SELECT 1 AS x FROM dual WHERE RAISE('boom')`,
		`SELECT 1 AS x FROM dual WHERE 1 + 'a' > 0`,
		`SELECT 1 AS x FROM dual WHERE 'not a boolean'`,
		`SELECT id, (SELECT 1 AS z FROM dual WHERE RAISE('boom')) AS k FROM t`,
	} {
		rows, err := run(q)
		if err == nil {
			t.Errorf("%s: expected a failure, got the successful-looking result %v", q, rows)
			continue
		}
		if rows != nil {
			t.Errorf("%s: rows returned together with the error: %v", q, rows)
		}
	}
}
