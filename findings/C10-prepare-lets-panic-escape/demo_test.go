package genql

import (
	"testing"
)

// C10: "constructing ... a query returns control to the caller with a result or
// an error: it never lets a panic escape the API".
//
// genql has two exported constructors. New recovers from panics; Prepare
// (statement + options, the constructor the engine itself uses for subqueries,
// CTEs and union branches) does not, although it runs the same Build step -
// and Build executes joins, derived tables, union branches and CTEs right
// away. Any panic in there (here: a join side that contains an inner array,
// whose rows are asserted to be maps in JoinMatchFunc) leaves Prepare as a
// panic. The same statement through New yields an error.
func TestFindingDemo(t *testing.T) {
	doc := Map{
		"mixed": []any{Map{"a": 1.0}, []any{Map{"a": 2.0}}},
		"other": []any{Map{"a": 1.0}},
	}
	text := "SELECT * FROM mixed u JOIN other t ON t.a < u.a"

	if _, err := New(doc, text); err == nil {
		t.Fatalf("New: expected an error")
	}

	statement, err := Parse(text)
	if err != nil {
		t.Fatal(err)
	}
	defer func() {
		if r := recover(); r != nil {
			t.Fatalf("a panic escaped Prepare: %v", r)
		}
	}()
	query, err := Prepare(doc, statement, &Options{})
	if err == nil {
		_, err = query.Exec()
	}
	if err == nil {
		t.Fatalf("Prepare/Exec: expected an error")
	}
}
