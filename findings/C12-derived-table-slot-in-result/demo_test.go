package genql

import (
	"fmt"
	"reflect"
	"testing"
	"time"
)

// C12: no pointer / unresolved async slot in a successful result (the ASYNC
// call IS the select-list item of the derived table), and the same query on an
// equal input gives an equal result.
func c12f2Pointers(path string, v any, out *[]string) {
	switch t := v.(type) {
	case map[string]any:
		for k, x := range t {
			c12f2Pointers(path+"."+k, x, out)
		}
	case []any:
		for i, x := range t {
			c12f2Pointers(fmt.Sprintf("%s[%d]", path, i), x, out)
		}
	default:
		if v != nil && reflect.TypeOf(v).Kind() == reflect.Ptr {
			*out = append(*out, fmt.Sprintf("%s holds a %T", path, v))
		}
	}
}

func TestFindingDemo(t *testing.T) {
	RegisterExternalFunction("c12f2_echo", func(args []any) (any, error) {
		time.Sleep(time.Millisecond)
		return args[0], nil
	})
	doc := func() Map {
		return Map{
			"a": []any{Map{"id": 1.0}, Map{"id": 2.0}, Map{"id": 3.0}},
			"b": []any{Map{"id": 1.0, "v": 10.0}, Map{"id": 2.0, "v": 20.0}},
		}
	}
	run := func(q string) ([]any, error) {
		query, err := New(doc(), q)
		if err != nil {
			return nil, err
		}
		return query.Exec()
	}
	// 1. the slot itself reaches the final result
	for _, q := range []string{
		"SELECT * FROM (SELECT ASYNC.C12F2_ECHO(id) AS k FROM a) x LEFT JOIN b y ON x.k = y.id INTO j",
		"SELECT ARRAY(t.k) AS c FROM (SELECT ASYNC.C12F2_ECHO(id) AS k FROM a) t",
		"SELECT FUSE(t) FROM (SELECT ASYNC.C12F2_ECHO(id) AS k FROM a) t",
		"SELECT ARRAY(DEFAULTKEY(FIRST((SELECT ASYNC.C12F2_ECHO(v) AS s FROM `<-`.b)))) AS c FROM a",
	} {
		rs, err := run(q)
		if err != nil {
			continue
		}
		found := []string{}
		c12f2Pointers("$", any(rs), &found)
		if len(found) > 0 {
			t.Errorf("%s\n    %v", q, found)
		}
	}
	// 2. the address of the slot reaches the final result as text: two
	// evaluations of the same query on equal inputs differ
	for _, q := range []string{
		"SELECT CONCAT(t.k) AS c FROM (SELECT ASYNC.C12F2_ECHO(id) AS k FROM a) t",
		"SELECT CONCAT((SELECT ASYNC.C12F2_ECHO(v) AS s FROM `<-`.b)) AS c FROM a",
	} {
		first, err1 := run(q)
		second, err2 := run(q)
		if err1 != nil || err2 != nil {
			continue
		}
		if !reflect.DeepEqual(first, second) {
			t.Errorf("%s\n    1st %v\n    2nd %v", q, first, second)
		}
	}
	// (with the slot resolved the first of them is [c:1] [c:2] [c:3])
	rs, err := run("SELECT CONCAT(t.k) AS c FROM (SELECT ASYNC.C12F2_ECHO(id) AS k FROM a) t")
	if err == nil && !reflect.DeepEqual(rs, []any{Map{"c": "1"}, Map{"c": "2"}, Map{"c": "3"}}) {
		t.Errorf("CONCAT over the derived table: got %v", rs)
	}
}
