package genql

import (
	"reflect"
	"testing"
)

// C11: when Exec returns, the caller's input document is deep-equal to its
// state before the call - also on the second execution of the same Query.
//
// The rows an execution returns belong to the caller. Here the caller keeps
// them in the document the query reads from (a "history" entry), which is a
// change the caller makes between two calls. The second Exec must leave the
// document - history included - as it found it.
func TestFindingDemo(t *testing.T) {
	vars := map[string]any{"tick": 1.0}
	doc := Map{
		"t":       []any{Map{"x": 1.0}},
		"history": nil,
	}
	q, err := New(doc, "SELECT AWAIT(GETVAR('tick')) AS tick FROM t", WithVars(vars))
	if err != nil {
		t.Fatal(err)
	}
	first, err := q.Exec()
	if err != nil {
		t.Fatal(err)
	}
	if want := []any{Map{"tick": 1.0}}; !reflect.DeepEqual(first, want) {
		t.Fatalf("first execution: got %v want %v", first, want)
	}

	// between the calls the document is the caller's to change
	doc["history"] = first
	vars["tick"] = 2.0

	before := snapshot(doc)
	second, err := q.Exec()
	if err != nil {
		t.Fatal(err)
	}
	if want := []any{Map{"tick": 2.0}}; !reflect.DeepEqual(second, want) {
		t.Fatalf("second execution: got %v want %v", second, want)
	}
	if after := snapshot(doc); !reflect.DeepEqual(before, after) {
		t.Fatalf("Exec modified the input document:\n before: %v\n after:  %v", before, after)
	}
}

func snapshot(value any) any {
	switch value := value.(type) {
	case map[string]any:
		out := make(map[string]any, len(value))
		for key, item := range value {
			out[key] = snapshot(item)
		}
		return out
	case []any:
		out := make([]any, len(value))
		for i, item := range value {
			out[i] = snapshot(item)
		}
		return out
	default:
		return value
	}
}
