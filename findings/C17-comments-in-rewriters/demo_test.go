package genql

import (
	"fmt"
	"testing"
)

// C17: the dialect options rewrite only syntax. A comment is syntax the parser
// skips, so a query must mean the same with and without the option, whatever
// the comment contains.
func TestFindingDemo(t *testing.T) {
	data := Map{"t": []any{Map{"a": 1, "b": "x"}, Map{"a": 2, "b": "y"}}}
	run := func(query string, options ...QueryOption) string {
		q, err := New(data, query, options...)
		if err != nil {
			return "New: " + err.Error()
		}
		rs, err := q.Exec()
		if err != nil {
			return "Exec: " + err.Error()
		}
		return fmt.Sprintf("%v", rs)
	}
	cases := []struct {
		name     string
		with     string
		option   QueryOption
		without  string
		expected string
	}{
		{
			// silently wrong rows: "a" stays a double-quoted string literal
			name:     "postgres/apostrophes in two block comments",
			with:     `SELECT /* don't */ "a" AS v /* don't */ FROM "t"`,
			option:   PostgresEscapingDialect(),
			without:  "SELECT /* don't */ `a` AS v /* don't */ FROM `t`",
			expected: "[map[v:1] map[v:2]]",
		},
		{
			name:     "postgres/apostrophe in a block comment",
			with:     `SELECT "a" AS v /* don't */ FROM "t"`,
			option:   PostgresEscapingDialect(),
			without:  "SELECT `a` AS v /* don't */ FROM `t`",
			expected: "[map[v:1] map[v:2]]",
		},
		{
			name:     "postgres/apostrophe in a -- comment",
			with:     "SELECT \"a\" AS v -- it's the id\n FROM \"t\"",
			option:   PostgresEscapingDialect(),
			without:  "SELECT `a` AS v -- it's the id\n FROM `t`",
			expected: "[map[v:1] map[v:2]]",
		},
		{
			name:     "postgres/backtick in a # comment",
			with:     "SELECT \"a\" AS v # the ` column\n FROM \"t\"",
			option:   PostgresEscapingDialect(),
			without:  "SELECT `a` AS v # the ` column\n FROM `t`",
			expected: "[map[v:1] map[v:2]]",
		},
		{
			name:     "arrays/opening bracket in a comment",
			with:     "SELECT [1, 2] AS v /* [ */ FROM dual",
			option:   IdomaticArrays(),
			without:  "SELECT ARRAY(1, 2) AS v /* [ */ FROM dual",
			expected: "[map[v:[1 2]]]",
		},
		{
			name:     "arrays/closing bracket in a comment",
			with:     "SELECT [1, 2] AS v -- ]\n FROM dual",
			option:   IdomaticArrays(),
			without:  "SELECT ARRAY(1, 2) AS v -- ]\n FROM dual",
			expected: "[map[v:[1 2]]]",
		},
		{
			name:     "arrays/apostrophe in a comment",
			with:     "SELECT [1] AS v /* don't */ , [2] AS w FROM dual",
			option:   IdomaticArrays(),
			without:  "SELECT ARRAY(1) AS v /* don't */ , ARRAY(2) AS w FROM dual",
			expected: "[map[v:[1] w:[2]]]",
		},
	}
	for _, c := range cases {
		// the reference: the same query in the library's own syntax, no option
		if reference := run(c.without); reference != c.expected {
			t.Fatalf("%s: the reference query returned %s, expected %s", c.name, reference, c.expected)
		}
		if got := run(c.with, c.option); got != c.expected {
			t.Errorf("%s:\n  query    %q\n  expected %s\n  got      %s", c.name, c.with, c.expected, got)
		}
	}
}
