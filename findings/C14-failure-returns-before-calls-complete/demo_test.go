package genql

import (
	"fmt"
	"sync/atomic"
	"testing"
	"time"
)

// C14: "once Exec returns, every ASYNC call ... has completed" and "SPINASYNC
// calls have all been invoked exactly once per row and completed before Exec
// returns". When a later select item (or a later row) fails, Exec returns the
// error without waiting for the calls it has already launched.
func TestFindingDemo(t *testing.T) {
	var started, completed int64
	RegisterFunction("c14f2_slow", func(_ *Query, _ Map, _ *FunctionOptions, args []any) (any, error) {
		atomic.AddInt64(&started, 1)
		time.Sleep(30 * time.Millisecond)
		atomic.AddInt64(&completed, 1)
		return args[0], nil
	})
	RegisterFunction("c14f2_fail", func(_ *Query, _ Map, _ *FunctionOptions, args []any) (any, error) {
		if args[0] == 2.0 {
			return nil, fmt.Errorf("boom")
		}
		return args[0], nil
	})
	data := Map{"t": []any{Map{"a": 1.0}, Map{"a": 2.0}, Map{"a": 3.0}}}
	for _, qualifier := range []string{"ASYNC", "SPINASYNC"} {
		atomic.StoreInt64(&started, 0)
		atomic.StoreInt64(&completed, 0)
		q := "SELECT " + qualifier + ".c14f2_slow(a) AS v, c14f2_fail(a) AS e FROM t"
		query, err := New(data, q)
		if err != nil {
			t.Fatal(err)
		}
		_, err = query.Exec()
		if err == nil {
			t.Fatalf("%s: expected the error of c14f2_fail", q)
		}
		// rows 1 and 2 launched their call before row 2 failed
		atReturn := atomic.LoadInt64(&completed)
		time.Sleep(200 * time.Millisecond)
		launched := atomic.LoadInt64(&started)
		if atReturn != launched {
			t.Errorf("%s: Exec returned (%v) while %d of the %d launched %s calls were still outstanding", q, err, launched-atReturn, launched, qualifier)
		}
	}
}
