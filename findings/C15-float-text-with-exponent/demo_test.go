package genql

import (
	"fmt"
	"testing"

	"github.com/vedadiyan/genql/compare"
)

// C15: a number is compared against a string with the order of the number's
// decimal text against that string. The decimal text of float64(1000000) is
// "1000000" (as it is for int(1000000)), not "1e+06".
func TestFindingDemo(t *testing.T) {
	for _, tt := range []struct {
		a, b any
		want int
	}{
		{int(1000000), "1000000", 0}, // control: passes
		{float64(1000000), "1000000", 0},
		{"1000000", float64(1000000), 0},
		{float32(1000000), "1000000", 0},
		{float64(1000000), "1000001", -1},
		{float64(123456789), "123456789", 0},
		{float64(0.00001), "0.00001", 0},
		{float64(0.00001), "0.1", -1},
	} {
		if got := compare.Compare(tt.a, tt.b); got != tt.want {
			t.Errorf("Compare(%T(%v), %T(%v)) = %d, want %d", tt.a, tt.a, tt.b, tt.b, got, tt.want)
		}
	}

	// through the engine: a JSON-decoded document holds float64 numbers
	data := Map{"t": []any{
		Map{"id": 1, "v": float64(999999)},
		Map{"id": 2, "v": float64(1000000)},
		Map{"id": 3, "v": int(1000000)},
	}}
	for query, want := range map[string]string{
		"SELECT id FROM t WHERE v = '999999'":              "[map[id:1]]",
		"SELECT id FROM t WHERE v = '1000000'":             "[map[id:2] map[id:3]]",
		"SELECT id FROM t WHERE v IN ('1000000', 'x')":     "[map[id:2] map[id:3]]",
		"SELECT id FROM t WHERE v NOT IN ('1000000', 'x')": "[map[id:1]]",
		"SELECT id FROM t WHERE v < '1000001' AND id > 1":  "[map[id:2] map[id:3]]",
	} {
		q, err := New(data, query)
		if err != nil {
			t.Fatal(err)
		}
		rs, err := q.Exec()
		if err != nil {
			t.Fatal(err)
		}
		if got := fmt.Sprint(rs); got != want {
			t.Errorf("%s: got %v want %v", query, got, want)
		}
	}
}
