package genql

import (
	"testing"

	sanitize "github.com/vedadiyan/genql/sanitizer"
)

// The placeholder number is accumulated in an int without an overflow check:
// $18446744073709551617 (2^64+1) wraps around to $1, $18446744073709551618 to
// $2 and so on. A placeholder for which no argument exists is then not reported
// but filled with another argument.
func TestFindingDemo(t *testing.T) {
	out, err := sanitize.SanitizeSQL("SELECT $18446744073709551617 AS v FROM dual", "x")
	if err == nil {
		t.Errorf("argument number 18446744073709551617 does not exist, want an error, got %q", out)
	}
	out, err = sanitize.SanitizeSQL("SELECT $1 AS a, $18446744073709551618 AS v FROM dual", "x", "y")
	if err == nil {
		t.Errorf("argument number 18446744073709551618 does not exist, want an error, got %q", out)
	}
}
