package genql

import "testing"

// C18: CONSTANT(k) returns the configured constant - for a numeric k as well
// (the property quantifies over argument values of every JSON scalar kind).
func TestFindingDemo(t *testing.T) {
	constants := map[string]any{"999999": "small tenant", "1500000": "big tenant"}
	doc := Map{
		"accounts": []any{
			Map{"tenant": 999999.0},
			Map{"tenant": 1500000.0}, // what encoding/json makes of 1500000
		},
	}
	query, err := New(doc, "SELECT CONSTANT(tenant) AS name FROM accounts", WithConstants(constants))
	if err != nil {
		t.Fatalf("New: %v", err)
	}
	rows, err := query.Exec()
	if err != nil {
		// no constant by the name `1.5e+06` was found
		t.Fatalf("Exec: %v", err)
	}
	if len(rows) != 2 || rows[0].(Map)["name"] != "small tenant" || rows[1].(Map)["name"] != "big tenant" {
		t.Errorf("got %#v, want small tenant / big tenant", rows)
	}
}
