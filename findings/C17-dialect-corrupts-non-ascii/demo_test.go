package genql

import (
	"fmt"
	"testing"
)

// C01: the rows kept by WHERE are the rows that satisfy the predicate, with any
// constants. With the PostgresEscapingDialect option a string constant that
// holds a non-ASCII character is corrupted before the query is parsed, so the
// comparison is made against a different constant.
func TestFindingDemo(t *testing.T) {
	data := Map{"t": []any{
		Map{"id": 1, "s": "é"},
		Map{"id": 2, "s": "e"},
		Map{"id": 3, "s": "z"},
	}}
	cases := []struct {
		where string
		want  string
	}{
		{"s = 'é'", "[1]"},
		{"s != 'é'", "[2 3]"},
		{"s IN ('é')", "[1]"},
		{"s NOT IN ('é')", "[2 3]"},
		{"s LIKE 'é'", "[1]"},
		{"s BETWEEN 'f' AND 'é'", "[1 3]"},
		{"s <= 'é'", "[1 2 3]"},
	}
	for _, c := range cases {
		for _, opts := range [][]QueryOption{nil, {PostgresEscapingDialect()}} {
			q, err := New(data, "SELECT id FROM t WHERE "+c.where, opts...)
			if err != nil {
				t.Fatalf("%s: %v", c.where, err)
			}
			rs, err := q.Exec()
			if err != nil {
				t.Fatalf("%s: %v", c.where, err)
			}
			ids := []any{}
			for _, r := range rs {
				ids = append(ids, r.(Map)["id"])
			}
			if got := fmt.Sprint(ids); got != c.want {
				t.Errorf("WHERE %s (PostgresEscapingDialect=%v): got ids %s, want %s", c.where, opts != nil, got, c.want)
			}
		}
	}
}
