# Rule self-validation corpus: small source edits that break exactly one rule instance and still compile.
# Each variant: (name, expected rule id prefix, [(file, old, new), ...]). Edits are plain text replacements against
# /repo's current sources; a variant whose `old` text is no longer present is SKIPPED (counted), never a violation.
V = {}
def v(pid, name, rule, *edits):
    V.setdefault(pid, []).append((name, rule, list(edits)))

P = 'plsql.go'; F = 'functions.go'; J = 'join.go'; S = 'selector.go'; C = 'compare/compare.go'; Z = 'sanitizer/sanitizer.go'; PR = 'processors.go'; SO = 'sort.go'; H = 'heplers.go'

# ---- C01
v('C01', 'ge-becomes-gt', 'c01.cmp-table', (P, 'compare.Compare(leftValue, rightValue) >= 0, nil', 'compare.Compare(leftValue, rightValue) > 0, nil'))
v('C01', 'filter-keeps-nonmatching', 'c01.filter-loop', (P, '''				if !isMatch {
					continue
				}
				slice = append(slice, current)''', '''				if isMatch && false {
					continue
				}
				slice = append(slice, current)'''))
v('C01', 'dual-filter-keeps-nonmatching', 'exec.dual-where', (P, '''				if !isMatch {
					continue
				}
			}
			from = append(from, current)''', '''				if isMatch && false {
					continue
				}
			}
			from = append(from, current)'''))
v('C01', 'between-exclusive-upper', 'c01.between', (P, 'compare.Compare(pointValueRaw, toValue) <= 0', 'compare.Compare(pointValueRaw, toValue) < 0'))
v('C01', 'or-becomes-and', 'c01.connectives', (P, 'return *leftValue || *rightValue, nil', 'return *leftValue && *rightValue, nil'))
v('C01', 'like-not-quoted', 'c01.like-escape', (P, 'regExpr := regexp.QuoteMeta(strings.ToLower(pattern))', 'regExpr := strings.ToLower(pattern)'))
v('C01', 'notin-text-compare', 'c01.in-siblings', (P, '''				if compare.Compare(leftValue, value) == 0 {
					return false, nil
				}''', '''				if leftValue == fmt.Sprintf("%v", value) {
					return false, nil
				}'''))
v('C01', 'is-null-inverted', 'c01.connectives', (P, 'return leftValue == nil, nil', 'return leftValue != nil && false, nil'))
v('C01', 'scan-breaks-early', 'exec.scan-complete', (P, '''				if !isMatch {
					continue
				}
				slice = append(slice, current)
			}''', '''				if !isMatch {
					continue
				}
				slice = append(slice, current)
				if query.limitDefinition == 1 && query.offsetDefinition == -1 && !query.distinct && len(query.orderByDefinition) == 0 && len(query.groupDefinition) == 0 {
					return ExecSelect(query, slice)
				}
			}'''))
# ---- C02
v('C02', 'minus-swapped', 'c02.arith-table', (P, 'rs := *leftValue - *rightValue', 'rs := *rightValue - *leftValue'))
v('C02', 'shift-swapped', 'c02.arith-table', (P, 'rs := float64(int64(*leftValue) >> int64(*rightValue))', 'rs := float64(int64(*rightValue) >> int64(*leftValue))'))
v('C02', 'xor-becomes-or', 'c02.arith-table', (P, 'rs := float64(int64(*leftValue) ^ int64(*rightValue))', 'rs := float64(int64(*leftValue) | int64(*rightValue))'))
v('C02', 'alias-precedence-inverted', 'c02.keys', (P, '''				name := expr.ColumnName()
				if len(expr.As.String()) > 0 {
					name = expr.As.String()
				}''', '''				name := expr.As.String()
				if len(expr.ColumnName()) > 0 {
					name = expr.ColumnName()
				}'''))
v('C02', 'case-inverted', 'c02.case', (P, '''		if value {
			return Expr(query, current, when.Val, opts...)
		}''', '''		if !value {
			return Expr(query, current, when.Val, opts...)
		}'''))
v('C02', 'unary-minus-identity', 'c02.unary-table', (P, 'rs := -1 * *valValue', 'rs := 1 * *valValue'))
v('C02', 'null-check-after-conversion-dropped', 'c02.null-prop', (P, '''	if rightValueRaw == nil {
		return nil, nil
	}
	rightValue, err := AsType[float64](rightValueRaw)''', '''	rightValue, err := AsType[float64](rightValueRaw)'''))
# ---- C03
v('C03', 'avg-null-clears-flag', 'c03.agg-siblings', (F, '''		if item == nil {
			continue
		}
		number, err := ToFloat64(item)
		if err != nil {
			return nil, err
		}
		sum += number
		allNull = false
	}
	if allNull {
		return nil, nil
	}
	sum /= float64(len(*slice))''', '''		if item == nil {
			allNull = false
			continue
		}
		number, err := ToFloat64(item)
		if err != nil {
			return nil, err
		}
		sum += number
		allNull = false
	}
	if allNull {
		return nil, nil
	}
	sum /= float64(len(*slice))'''))
v('C03', 'max-keeps-smaller', 'c03.agg-siblings', (F, 'if number > min {', 'if number < min {'))
v('C03', 'row-in-two-groups', 'c03.partition', (P, '''		if ref != nil {
			grouped[ref] = append(grouped[ref], item)
			continue
		}''', '''		if ref != nil {
			grouped[ref] = append(grouped[ref], item)
		}'''))
v('C03', 'memo-by-name', 'c03.memo-key', (P, 'key := sqlparser.String(expr)\n', 'key := name\n'))
v('C03', 'aggregates-read-unfiltered', 'c03.filtered-flow', (P, 'rs, err := SelectExpr(query, Map{"*": current}, &query.selectDefinition)', 'rs, err := SelectExpr(query, Map{"*": query.from}, &query.selectDefinition)'))
v('C03', 'membership-first-key-only', 'c03.key-equality', (P, '''				if (*group)[key] != value {
					isMatch = false
					break
				}''', '''				if (*group)[key] != value {
					isMatch = false
				}
				break'''))
v('C03', 'groups-from-map-order', 'c03.group-order', (P, '''	for _, key := range order {
		item := grouped[key]''', '''	for key, item := range grouped {'''))
# ---- C04
v('C04', 'nested-right-bucket-under-left-key', 'c04.emit-sides', (J, """			for _, lr := range l.Rows[lk] {
				for _, rr := range r.Rows[rk] {""", """			for _, lr := range l.Rows[lk] {
				for _, rr := range r.Rows[lk] {"""))
v('C04', 'nested-right-bucket-under-left-ident', 'c04.emit-sides', (J, 'if err := Copy(current, r.Rows[rk], j.rightIdent); err != nil {', 'if err := Copy(current, r.Rows[rk], j.leftIdent); err != nil {'))
v('C04', 'nested-pad-under-left-ident', 'c04.emit-sides', (J, """			maps.Copy(mapper, (*lr).(Map))
			mapper[j.rightIdent] = nil
			slice = append(slice, mapper)
		}
	}
	return b, slice, nil""", """			maps.Copy(mapper, (*lr).(Map))
			mapper[j.leftIdent] = nil
			slice = append(slice, mapper)
		}
	}
	return b, slice, nil"""))
v('C04', 'hash-left-keymap-twice', 'c04.emit-sides', (J, """			if _, ok := r.Keys[hash]; ok {
				maps.Copy(current, *(r.Keys[hash]))""", """			if _, ok := r.Keys[hash]; ok {
				maps.Copy(current, *(l.Keys[hash]))"""))
v('C04', 'straight-join-right-catalog-idents-exchanged', 'c04.matcher-siblings', (J, """	r, err := ToCatalog(j.right, j.rightIdent, j.leftIdent, j.joinExpr)
	if err != nil {
		return nil, err
	}
	if !j.joinType.IsParallel() || !isParallelSafe(j.joinExpr) {
		return j.JoinFunc(l, r)
	}
	return j.ParallelJoinFunc(l, r)
}

func (j *Join) Join() ([]any, error) {""", """	r, err := ToCatalog(j.right, j.leftIdent, j.rightIdent, j.joinExpr)
	if err != nil {
		return nil, err
	}
	if !j.joinType.IsParallel() || !isParallelSafe(j.joinExpr) {
		return j.JoinFunc(l, r)
	}
	return j.ParallelJoinFunc(l, r)
}

func (j *Join) Join() ([]any, error) {"""))
v('C04', 'outer-emits-every-pair', 'c04.emit-guard', (J, '''		if rsValue {
			b = true''', '''		if rsValue || !j.joinType.IsInner() {
			b = true'''))
v('C04', 'hash-forced', 'c04.hash-only-when-equi', (J, 'case hashJoinAnalyze(j.leftIdent, j.rightIdent, j.joinExpr):', 'case j.joinType.IsHashJoin() || hashJoinAnalyze(j.leftIdent, j.rightIdent, j.joinExpr):'))
v('C04', 'hash-matcher-inner-inverted', 'c04.hash-matcher', (J, 'if right, ok := r.Rows[hash]; ok || !j.joinType.IsInner() {', 'if right, ok := r.Rows[hash]; ok || j.joinType.IsInner() {'))
v('C04', 'swap-rows-only', 'c04.matcher-siblings', (J, '''func (j *Join) HashJoin() ([]any, error) {
	if !j.joinType.IsLeftJoin() {
		j.left, j.right = j.right, j.left
		j.leftIdent, j.rightIdent = j.rightIdent, j.leftIdent
	}''', '''func (j *Join) HashJoin() ([]any, error) {
	if !j.joinType.IsLeftJoin() {
		j.left, j.right = j.right, j.left
	}'''))
v('C04', 'analysis-accepts-non-equalities', 'c04.equi-analysis', (J, '''			if e.Operator != sqlparser.EqualOp {
				return false
			}''', '''			if e.Operator == sqlparser.NotEqualOp {
				return false
			}'''))
v('C04', 'columns-deduplicated', 'c04.key-alignment', (J, '	return columns, nil\n}\n\nfunc removeDuplicates', '	return removeDuplicates(columns), nil\n}\n\nfunc removeDuplicates'))
v('C04', 'parallel-append-unlocked', 'c13.captured-vars', (J, '''			case ok:
				{
					mut.Lock()
					slice = append(slice, matches...)
					mut.Unlock()
				}
			case !ok && err != nil:
				{
					mut.Lock()
					if firstErr == nil {
						firstErr = err
					}
					mut.Unlock()
				}
			default:
				{
					break
				}
			}
		}(lk)''', '''			case ok:
				{
					slice = append(slice, matches...)
				}
			case !ok && err != nil:
				{
					mut.Lock()
					if firstErr == nil {
						firstErr = err
					}
					mut.Unlock()
				}
			default:
				{
					break
				}
			}
		}(lk)'''))
# ---- C05
v('C05', 'limit-clamped-before-offset', 'c05.window', (P, '''	rs = rs[offset:]
	if limit >= len(rs) {
		limit = len(rs)
	}
	rs = rs[:limit]''', '''	if limit >= len(rs) {
		limit = len(rs)
	}
	rs = rs[offset:][:limit]'''))
v('C05', 'tie-recursion-swaps-indices', 'c05.less-table', (SO, 'return Compare(slice, i, j, orderBy[1:])', 'return Compare(slice, j, i, orderBy[1:])'))
v('C05', 'null-second-not-less', 'c05.less-table', (SO, '''	if second == nil {
		return true, nil
	}''', '''	if second == nil {
		return false, nil
	}'''))
v('C05', 'direction-flag-inverted', 'c05.build', (P, 'Value: ordeorderBy.Direction == sqlparser.AscOrder,', 'Value: ordeorderBy.Direction == sqlparser.DescOrder,'))
# ---- C06
v('C06', 'union-right-first', 'c06.union-wiring', (P, '''	slice = append(slice, leftDataArray...)
	slice = append(slice, rightDataArray...)''', '''	slice = append(slice, rightDataArray...)
	slice = append(slice, leftDataArray...)'''))
v('C06', 'distinct-flag-inverted', 'c06.union-wiring', (P, '	query.distinct = expr.Distinct\n', '	query.distinct = !expr.Distinct\n'))
v('C06', 'fingerprint-not-recorded', 'c06.distinct-first', (P, '''		mapper[hex.EncodeToString(sha256.Sum(nil))] = true
		slice = append(slice, item)''', '''		slice = append(slice, item)'''))
v('C06', 'empty-list-all-aggregate', 'c06.empty-list', (P, '''	if len(query.selectDefinition.Exprs) == 0 {
		return false
	}
''', ''))
# ---- C08
v('C08', 'where-from-having', 'c08.copy-fields', (P, 'whereDefinition:   query.whereDefinition,', 'whereDefinition:   query.havingDefinition,'))
v('C08', 'inner-result-projected-twice', 'c02.one-per-row', (P, '''				if current == nil {
					current = make([]any, 0)
				}
				copy = append(copy, current)''', '''				rs, err := ExecSelect(query, current)
				if err != nil {
					return nil, err
				}
				copy = append(copy, rs)'''))
v('C08', 'copy-not-awaited', 'c07.nested-discipline', (P, 'rs, err := copy.execAndPostProcess()', 'rs, err := copy.exec()'))
# ---- C09
v('C09', 'range-low-high-unchecked', 'c09.total', (S, 'if begin < 0 || begin > end || end > len(array) {', 'if begin < 0 || end > len(array) {'))
v('C09', 'index-off-by-one', 'c09.total', (S, 'if index < 0 || index >= len(array) {', 'if index < 0 || index > len(array) {'))
v('C09', 'selectmany-unchecked-assert', 'c09.total', (S, '''	if _, ok := rs.([]any); !ok {
		return rs, nil
	}
''', ''))
v('C09', 'range-split-length-unchecked', 'c09.total', (S, 'if len(split) != 2 {', 'if len(split) < 1 {'))
v('C09', 'reader-writes-into-document', 'c09.read-only', (S, '''					slice := make([]any, len(data))
					for index, item := range data {
						rs, err := Reader(item, selectors)
						if err != nil {
							return nil, err
						}
						slice[index] = rs
					}
					return slice, nil

				}''', '''					for index, item := range data {
						rs, err := Reader(item, selectors)
						if err != nil {
							return nil, err
						}
						data[index] = rs
					}
					return data, nil

				}'''))
# ---- C10
v('C10', 'new-without-recover', 'c10.entry-recover', (P, '''func New(data Map, query string, options ...QueryOption) (result *Query, err error) {
	defer func() {
		if r := recover(); r != nil {
			result, err = nil, RecoveredError(r)
		}
	}()''', '''func New(data Map, query string, options ...QueryOption) (result *Query, err error) {'''))
v('C10', 'handler-asserts-error', 'c10.handler-total', (SO, 'err = RecoveredError(r)', 'err = r.(error)'))
v('C10', 'spin-without-recover', 'c10.go-closure', (P, '''			go func() {
				defer query.reportPanic()
				_, err := function(query, current, nil, slice)''', '''			go func() {
				_, err := function(query, current, nil, slice)'''))
v('C10', 'cte-guard-removed', 'c10.cte-reentry', (P, '''			data[copy.ID.String()] = CteEvaluation(func() (any, error) {
				return nil, EXPECTATION_FAILED.Extend(fmt.Sprintf("recursive reference to the common table expression %s", copy.ID.String()))
			})
''', ''))
v('C10', 'star-copies-marker', 'c02.no-marker-copy', (P, '''					if key == "<-" {
						continue
					}
''', ''))
v('C10', 'cache-hit-returns-holding-lock', 'c10.lock-pairing', (S, '''	mut.Lock()
	defer mut.Unlock()
	if allSelectors, ok := cache[selector]; ok {
		return allSelectors, nil
	}''', '''	mut.Lock()
	if allSelectors, ok := cache[selector]; ok {
		return allSelectors, nil
	}
	defer mut.Unlock()'''))
# ---- C11
v('C11', 'marker-written-in-place', 'own.write', (P, '''	scoped := make(Map, len(current)+1)
	for key, value := range current {
		scoped[key] = value
	}
	scoped["<-"] = query.data
	return scoped''', '''	current["<-"] = query.data
	return current'''))
v('C11', 'exists-merges-in-place', 'own.write', (P, '''		merged := make(Map, len(item)+len(current))
		for key, value := range current {
			merged[key] = value
		}
		// the element's own columns hide the outer row's columns of the same name
		for key, value := range item {
			merged[key] = value
		}
		from[i] = merged''', '''		for key, value := range current {
			if _, own := item[key]; !own {
				item[key] = value
			}
		}
		from[i] = item'''))
v('C11', 'cte-registered-in-callers-map', 'own.write', (P, '''	data := make(Map, len(query.data)+len(expr.CTEs))
	for key, value := range query.data {
		data[key] = value
	}
	query.data = data''', '''	data := query.data'''))
# ---- C12
v('C12', 'tuple-elements-raw', 'c12.sink-unwrapped', (P, '''		value, err := ValueOf(query, current, rs)
		if err != nil {
			return nil, err
		}
		slice = append(slice, value)
	}
	return slice, nil
}

func SelectExpr''', '''		slice = append(slice, rs)
	}
	return slice, nil
}

func SelectExpr'''))
v('C12', 'string-wrapper-returned', 'c12.unwrap-table', (H, '''	case NeutalString:
		{
			return string(value), nil
		}''', '''	case NeutalString:
		{
			return value, nil
		}'''))
v('C12', 'ommit-false-is-stored', 'c12.omit-fuse', (P, '''				if _, ok := value.(Ommit); ok {
					continue
				}''', '''				if v, ok := value.(Ommit); ok && bool(v) {
					continue
				}'''))
# ---- C13
v('C13', 'setvar-under-read-lock', 'c13.field-locks', (F, '''	query.options.varsMut.Lock()
	defer query.options.varsMut.Unlock()
	query.options.vars[key] = value''', '''	query.options.varsMut.RLock()
	defer query.options.varsMut.RUnlock()
	query.options.vars[key] = value'''))
v('C13', 'cache-read-before-lock', 'c13.global-lockset', (S, '''	mut.Lock()
	defer mut.Unlock()
	if allSelectors, ok := cache[selector]; ok {
		return allSelectors, nil
	}''', '''	if allSelectors, ok := cache[selector]; ok {
		return allSelectors, nil
	}
	mut.Lock()
	defer mut.Unlock()'''))
# ---- C14
v('C14', 'wait-after-postprocessors', 'c14.wait-before-post', (P, '''	// the calls that were launched are awaited on the error path as well
	query.wg.Wait()
	if err != nil {
		// the rows of the failed run''', '''	if err != nil {
		query.wg.Wait()
		// the rows of the failed run'''), (P, '''			return nil, err
		}
	}
	return rs, nil
}

func (query *Query) Exec()''', '''			return nil, err
		}
	}
	query.wg.Wait()
	return rs, nil
}

func (query *Query) Exec()'''))
v('C14', 'spinasync-not-counted', 'c14.strategy-table', (P, '''			query.wg.Add(1)
			go func() {
				defer query.wg.Done()
				defer query.reportPanic()
				_, err := function(query, current, nil, slice)''', '''			go func() {
				defer query.reportPanic()
				_, err := function(query, current, nil, slice)'''))
v('C14', 'once-stores-other-key', 'c14.strategy-table', (P, '''				query.singletonExecutions[name] = rs
				return rs, nil
			}
			return rs, nil
		}
	case "global":''', '''				query.singletonExecutions[expr.Name.Lowered()] = rs
				return rs, nil
			}
			return rs, nil
		}
	case "global":'''))
v('C14', 'getvar-not-immediate', 'c14.immediate-registry', (F, 'RegisterImmediateFunction("getvar", GetVarFunc)', 'RegisterFunction("getvar", GetVarFunc)'))
# ---- C15
v('C15', 'compare-in-left-type', 'c15.exact-domain', (C, 'x, y := float64(a), As[float64](b)', 'x, y := a, As[T](b)'))
v('C15', 'text-operands-swapped', 'c15.symmetric-dispatch', (C, 'return strings.Compare(text(a), t)', 'return strings.Compare(t, text(a))'))
v('C15', 'greater-returns-minus-one', 'c15.trichotomy', (C, '''	if x > y {
		return 1
	}
	return -1''', '''	if x > y {
		return -1
	}
	return 1'''))
# ---- C16
v('C16', 'backslash-not-escaped', 'c16.escape-set', (Z, '	str = strings.ReplaceAll(str, `\\`, `\\\\`)\n', ''))
v('C16', 'lower-bound-dropped', 'c16.index-two-sided', (Z, '''			if argIdx < 0 {
				return "", fmt.Errorf("invalid placeholder: $%d", part)
			}
''', ''))
v('C16', 'no-backtick-state', 'c16.lexer-states', (Z, '''		case '`':
			return backtickState
''', ''))
v('C16', 'string-argument-raw', 'c16.accounting', (Z, '''			case string:
				str = QuoteString(arg)''', '''			case string:
				str = "'" + arg + "'"'''))
# ---- C17
v('C17', 'offset-mismatch', 'c17.length-accounting', (PR, '		str += "("', '		str += " ("'))
v('C17', 'brackets-seen-in-backticks', 'c17.bracket-guard', (PR, '''		if hold != nil {
			continue
		}''', '''		if hold != nil && *hold != '`' {
			continue
		}'''))
v('C17', 'wrapped-extra-key', 'c17.option-order', (P, 'q.data = Map{"root": data}', 'q.data = Map{"root": data, "data": data}'))
# ---- C18
v('C18', 'decode-other-encoding', 'c18.codec-pairs', (F, 'bytes, err := base64.URLEncoding.DecodeString(*data)', 'bytes, err := base64.StdEncoding.DecodeString(*data)'))
v('C18', 'if-branches-swapped', 'c18.select-contracts', (F, '''	if condition != nil && *condition {
		if whenTrue == nil {''', '''	if condition != nil && !*condition {
		if whenTrue == nil {'''))
v('C18', 'last-on-empty', 'c18.index-contracts', (F, '''	len := len(*slice)
	if len > 0 {''', '''	len := len(*slice)
	if len >= 0 {'''))
v('C18', 'unwind-keeps-array-too', 'c18.index-contracts', (F, '''			output = append(output, item...)
			continue
		}''', '''			output = append(output, item...)
		}'''))
v('C18', 'guard-off-by-one', 'c18.guard-table', (F, '''	if len(args) > n {''', '''	if len(args) > n+1 {'''))
v('C18', 'daterange-to-from-first-argument', 'c18.select-contracts', (F, '''		to = TextOf(args[1])''', '''		to = TextOf(args[0])'''))
v('C18', 'elementat-negative', 'c18.index-contracts', (F, 'if index >= 0 && len(*slice) > index {', 'if len(*slice) > index {'))
# ---- C19
v('C19', 'projection-error-skipped', 'c19.no-drop', (P, '''				rs, err := SelectExpr(query, current, &query.selectDefinition)
				if err != nil {
					return nil, err
				}
				copy = append(copy, rs)''', '''				rs, err := SelectExpr(query, current, &query.selectDefinition)
				if err != nil {
					continue
				}
				copy = append(copy, rs)'''))
v('C19', 'postprocessor-error-nil', 'c19.no-drop', (P, '''		err := postProcessor()
		if err != nil {
			return nil, err
		}''', '''		err := postProcessor()
		if err != nil {
			return nil, nil
		}'''))
v('C19', 'partial-result-with-error', 'c19.no-partial', (P, '''	rs, err := ExecGroupBy(query, slice)
	if err != nil {
		return nil, err
	}''', '''	rs, err := ExecGroupBy(query, slice)
	if err != nil {
		return slice, err
	}'''))
v('C19', 'group-error-ignored', 'c19.no-drop', (P, '''		qualifier, name, err := BuildColumnName(i)
		if err != nil {
			return err
		}
		if len(qualifier) == 0 {
			query.groupDefinition[name] = true''', '''		qualifier, name, err := BuildColumnName(i)
		if err != nil {
			return nil
		}
		if len(qualifier) == 0 {
			query.groupDefinition[name] = true'''))
# ---- C20
v('C20', 'setvar-key-from-value', 'c20.cell', (F, '''	key := TextOf(args[0])
	value := args[1]''', '''	key := TextOf(args[1])
	value := args[1]'''))
v('C20', 'vars-copied', 'c20.same-map', (P, '''		query.options.vars = vars''', '''		query.options.vars = make(map[string]any, len(vars))
		for k, v := range vars {
			query.options.vars[k] = v
		}'''))
# ---- C07
v('C07', 'subquery-over-document', 'c07.scope-arg', (P, 'subQuery, err := Prepare(current, expr.Select, query.options)', 'subQuery, err := Prepare(query.data, expr.Select, query.options)'))
v('C07', 'exists-chaining-goroutine-waits-for-the-wrong-group', 'c07.nested-discipline', (P, '''	go func() {
		q.wg.Wait()
		query.wg.Done()
	}()''', '''	go func() {
		query.wg.Wait()
		q.wg.Done()
	}()'''))
v('C07', 'exists-always-true', 'c07.scope-arg', (P, 'return len(array) > 0, nil', 'return len(array) >= 0, nil'))
v('C07', 'cte-stored-under-other-key', 'c07.cte-memo', (P, '''			data[copy.ID.String()] = CteEvaluation(func() (any, error) {
				return rs, nil
			})''', '''			data[strings.ToLower(copy.ID.String())] = CteEvaluation(func() (any, error) {
				return rs, nil
			})'''))
v('C07', 'alias-reverses-rows', 'c07.alias', (P, '''		slice[i] = Map{
			as: j,
		}''', '''		slice[len(data)-1-i] = Map{
			as: j,
		}'''))
v('C07', 'thunk-error-swallowed', 'c07.thunk-siblings', (S, '''					rs, err := data()
					if err != nil {
						return nil, err
					}
					return Reader(rs, selectors)''', '''					rs, err := data()
					if err != nil {
						return nil, nil
					}
					return Reader(rs, selectors)'''))
# ---- round-2 rules
v('C01', 'or-routed-to-and', 'expr.dispatch', (P, '''	case *sqlparser.OrExpr:
		{
			return OrExpr(query, current, expr, opts...)''', '''	case *sqlparser.OrExpr:
		{
			return AndExpr(query, current, &sqlparser.AndExpr{Left: expr.Left, Right: expr.Right}, opts...)'''))
v('C01', 'kept-rows-in-place', 'exec.kept-fresh', (P, '''	slice := make([]any, 0)
	for _, current := range query.from {''', '''	slice := query.from[:0]
	for _, current := range query.from {'''))
v('C02', 'star-skips-empty-values', 'c02.star-all-keys', (P, '''					if _, ok := value.(CteEvaluation); ok {
						continue
					}''', '''					if _, ok := value.(CteEvaluation); ok || value == nil {
						continue
					}'''))
v('C02', 'valueof-nil-pointer-deref', 'c12.unwrap-table', (H, '''			if value == nil {
				return nil, nil
			}
			return *value, nil''', '''			return *value, nil'''))
v('C02', 'case-large-shortcut', 'c02.case', (P, '''	if expr.Else == nil {
		return Expr(query, current, &sqlparser.NullVal{}, opts...)
	}''', '''	if expr.Else == nil {
		return Expr(query, current, &sqlparser.NullVal{}, opts...)
	}
	if len(expr.Whens) > 3 {
		return false, nil
	}'''))
v('C03', 'whole-table-branch-with-groupby', 'c03.one-row-only-ungrouped', (P, 'if len(query.groupDefinition) == 0 && IsSelectAllAggregate(query) {', 'if IsSelectAllAggregate(query) {'))
v('C04', 'hashjoin-empty-shortcut', 'c04.entry-matcher', (J, '''	if !j.joinType.IsParallel() {
		return j.HashJoinFunc(l, r)
	}''', '''	if len(l.Rows) == 0 {
		return make([]any, 0), nil
	}
	if !j.joinType.IsParallel() {
		return j.HashJoinFunc(l, r)
	}'''))
v('C06', 'distinct-keeps-null-rows', 'c06.distinct-first', (P, '''	for _, item := range current {
		sha256 := sha256.New()''', '''	for _, item := range current {
		if item == nil {
			slice = append(slice, item)
			continue
		}
		sha256 := sha256.New()'''))
v('C06', 'branch-helper-sets-limit', 'def.writers', (P, '''	data, err := branch.execAndPostProcess()''', '''	branch.limitDefinition = query.limitDefinition
	data, err := branch.execAndPostProcess()'''))
v('C07', 'exists-merged-map-hoisted', 'c07.exists-fresh-row', (P, '''	from := make([]any, len(q.from))
	for i := 0; i < len(q.from); i++ {''', '''	from := make([]any, len(q.from))
	merged := make(Map, len(current))
	for i := 0; i < len(q.from); i++ {'''), (P, '''		merged := make(Map, len(item)+len(current))
''', ''''''))
v('C08', 'mix-keeps-empty-arrays', 'c08.mix-shape', (S, '''		if array, ok := item.([]any); ok {
			slice = append(slice, MixArray(array)...)
			continue
		}''', '''		if array, ok := item.([]any); ok && len(array) > 0 {
			slice = append(slice, MixArray(array)...)
			continue
		}'''))
v('C08', 'asarray-unwraps-singleton', 'c08.source-identity', (H, '''	case []any:
		{
			return data, nil
		}
	case Map:
		{
			return []any{data}, nil''', '''	case []any:
		{
			if len(data) == 1 {
				if rows, ok := data[0].([]any); ok {
					return rows, nil
				}
			}
			return data, nil
		}
	case Map:
		{
			return []any{data}, nil'''))
v('C09', 'reader-error-checked-after-loop', 'c09.errors-propagate', (S, '''					slice := make([]any, len(data))
					for index, item := range data {
						rs, err := Reader(item, selectors)
						if err != nil {
							return nil, err
						}
						slice[index] = rs
					}
					return slice, nil

				}''', '''					slice := make([]any, len(data))
					var err error
					for index, item := range data {
						var rs any
						rs, err = Reader(item, selectors)
						slice[index] = rs
					}
					if err != nil {
						return nil, err
					}
					return slice, nil

				}'''))
v('C12', 'union-branch-uncompleted', 'c12.exec-callers', (P, '''	data, err := branch.execAndPostProcess()''', '''	data, err := branch.exec()'''))
v('C12', 'star-copies-thunks', 'c12.thunk-resolved', (P, '''					if _, ok := value.(CteEvaluation); ok {
						continue
					}
''', ''''''))
v('C12', 'item-named-marker', 'c12.marker-key', (P, '''				if name == "<-" {
					return nil, EXPECTATION_FAILED.Extend("`<-` is reserved for backward navigation. give the column an alias")
				}
''', ''''''))
v('C12', 'plain-document-keeps-marker', 'c12.plain-document', (H, '''		if _, ok := value.(CteEvaluation); ok || key == "<-" {
			continue
		}''', '''		if _, ok := value.(CteEvaluation); ok {
			continue
		}'''))
v('C12', 'document-value-not-sanitised', 'c12.thunk-resolved', (H, '''			if document, ok := rs.(Map); ok {
				return PlainDocument(document), nil
			}
''', ''''''))
# ---- rules added after the defect hunt: each variant undoes one repair
v('C01', 'like-without-s-flag', 'c01.like-escape', (P, 'regExpr = "(?s)^" + regExpr + "$"', 'regExpr = "^" + regExpr + "$"'))
v('C17', 'bytes-written-as-runes', 'c17.byte-copy', (PR, 'buffer.WriteByte(str[i+1])', 'buffer.WriteRune(rune(str[i+1]))'))
v('C02', 'case-condition-not-unwrapped', 'c02.case', (P, '''		rs, err = ValueOf(query, current, rs)
		if err != nil {
			return nil, err
		}
		// a NULL condition is not true
		if rs == nil {
			continue
		}
''', ''))
v('C07', 'cte-memo-plain-rows', 'c07.cte-memo', (P, '''			data[copy.ID.String()] = CteEvaluation(func() (any, error) {
				return rs, nil
			})
			return rs, nil''', '''			data[copy.ID.String()] = rs
			return rs, nil'''))
v('C02', 'column-name-drops-outer', 'c02.column-name-complete', (P, '''	if outer := columnName.Qualifier.Qualifier.String(); len(outer) > 0 {
		qualifier = fmt.Sprintf("%s.%s", outer, qualifier)
	}
''', ''))
v('C03', 'group-value-under-flat-name', 'c03.group-row-addressable', (P, '''			if err := SetPath(current, innerKey, innerValue); err != nil {
				return nil, err
			}
''', '''			current[innerKey] = innerValue
'''))
v('C03', 'setpath-literal-on-quote', 'c03.group-row-addressable', (P, '''	selectors, err := ParseSelector(name)
	if err != nil {
		return err
	}
''', '''	selectors, err := ParseSelector(name)
	if err != nil {
		return err
	}
	if strings.ContainsAny(name, "'\\"`") {
		row[name] = value
		return nil
	}
'''))
v('C04', 'derived-side-without-ident', 'c04.side-ident', (P, '''			// a join identifies its sides by this name
			query.ident = as
''', ''))
v('C04', 'key-with-plain-separator', 'c04.key-encoding', (J, '''			buffer.WriteString(fmt.Sprintf("%d:", len(text)))
			buffer.WriteString(text)''', '''			buffer.WriteString(text)
			buffer.WriteString("-")'''))
v('C05', 'union-order-by-dropped', 'c06.', (P, '''	err = BuildOrder(query, &expr.OrderBy)
	if err != nil {
		return err
	}
	err = BuildLimit(query, expr.Limit)''', '''	err = BuildLimit(query, expr.Limit)'''))
v('C06', 'fingerprint-percent-v', 'c06.distinct-first', (P, 'fmt.Sprintf("%#v", item)', 'fmt.Sprintf("%v", item)'))
v('C06', 'branch-with-overwritten', 'c06.branch-with', (P, 'branch.SetWith(MergeWith(with, branch.With))', 'branch.SetWith(with)'))
v('C07', 'exists-outer-written-last', 'c07.exists-merge', (P, '''		for key, value := range current {
			merged[key] = value
		}
		// the element's own columns hide the outer row's columns of the same name
		for key, value := range item {
			merged[key] = value
		}''', '''		for key, value := range item {
			merged[key] = value
		}
		for key, value := range current {
			merged[key] = value
		}'''))
v('C07', 'not-in-compares-row-map', 'c01.in-siblings', (P, '''				// a row of a subquery stands for the value of its only column, as in the IN arm
				if row, ok := value.(Map); ok {
					if len(row) > 1 {
						return false, EXPECTATION_FAILED.Extend("failed to build `NOT IN` expression. the subquery returns more than one column")
					}
					for _, column := range row {
						value = column
						break
					}
				}
''', ''))
v('C07', 'function-applied-to-thunk', 'c07.function-on-thunk', (S, '''	if lazy, ok := rs.(func() (any, error)); ok {
		rs, err = lazy()
		if err != nil {
			return nil, err
		}
	}
''', ''))
v('C08', 'alias-wraps-inner-arrays', 'c08.alias-nesting', (P, '''		if inner, ok := j.([]any); ok {
			slice[i] = ProcessAlias(inner, as)
			continue
		}
''', ''))
v('C09', 'arrow-without-identifier-test', 'c09.function-arrow-guard', (S, 'if len(functions) == 2 && isFunctionName(functions[0]) {', 'if len(functions) == 2 {'))
v('C09', 'raw-split-at-continuation', 'c09.continue-split', (S, 'selectors := splitContinue(selector)', 'selectors := strings.Split(selector, "::")'))
v('C09', 'pipe-string-percent-f', 'c09.pipe-string', (S, "copy[selector.GetKey()] = strconv.FormatFloat(value, 'f', -1, 64)", 'copy[selector.GetKey()] = fmt.Sprintf("%f", value)'))
v('C10', 'from-document-as-it-is', 'c10.from-plain-document', (P, '''					if document, ok := data.(Map); ok {
						data = PlainDocument(document)
					}
''', ''))
v('C13', 'parallel-without-guard', 'c13.parallel-guard', (J, 'if !j.joinType.IsParallel() || !isParallelSafe(j.joinExpr) {', 'if !j.joinType.IsParallel() {'))
v('C14', 'distinct-before-resolve', 'c14.resolve-before-compare', (P, 'if query.distinct || len(query.orderByDefinition) > 0 {', 'if query.distinct && len(query.orderByDefinition) > 1000000 {'))
v('C14', 'join-sides-not-adopted', 'c14.join-sides-adopted', (P, '''	query.postProcessors = append(query.postProcessors, left.postProcessors...)
''', ''))
v('C14', 'error-path-skips-wait', 'c14.wait-before-post', (P, '''	// the calls that were launched are awaited on the error path as well
	query.wg.Wait()
	if err != nil {
		// the rows of the failed run''', '''	defer query.wg.Wait()
	if err != nil {
		// the rows of the failed run'''))
v('C14', 'await-does-not-wait', 'c14.await-waits', (P, '''			// are refused
			query.wg.Wait()
''', '''			// are refused
'''))
v('C15', 'text-helper-percent-v', 'c15.decimal-text', (C, "return strconv.FormatFloat(t, 'f', -1, 64)", 'return fmt.Sprintf("%v", t)'))
v('C16', 'line-comment-ends-at-cr', 'c16.lexer-tokenizer', (Z, "		case '\\n':\n			// the parser ends a one-line comment", "		case '\\n', '\\r':\n			// the parser ends a one-line comment"))
v('C16', 'double-slash-unknown', 'c16.lexer-tokenizer', (Z, '''			if nextRune == '/' {
				l.pos += width
				return oneLineCommentState
			}''', ''))
v('C16', 'eof-by-width-three', 'c16.lexer-tokenizer', (Z, '''func escapeStringState(l *sqlLexer) stateFn {''', '''func escapeStringState(l *sqlLexer) stateFn {
	_ = replacementcharacterwidth'''), (Z, '''			l.pos += width
		case utf8.RuneError:
			if width == 0 {
				if l.pos-l.start > 0 {
					l.parts = append(l.parts, l.src[l.start:l.pos])
					l.start = l.pos
				}
				return nil
			}
		}
	}
}

func oneLineCommentState''', '''			l.pos += width
		case utf8.RuneError:
			if width != 3 {
				if l.pos-l.start > 0 {
					l.parts = append(l.parts, l.src[l.start:l.pos])
					l.start = l.pos
				}
				return nil
			}
		}
	}
}

func oneLineCommentState'''))
v('C16', 'nan-rendered', 'c16.lexer-tokenizer', (Z, '''				if math.IsNaN(arg) || math.IsInf(arg, 0) {''', '''				if math.IsNaN(arg) && math.IsInf(arg, 0) {'''))
v('C17', 'backtick-not-doubled', 'c17.backtick-doubled', (PR, '''					if r == '`' {
						buffer.WriteByte('`')
					}
''', ''))
v('C17', 'escape-skip-everywhere', 'c17.bracket-escape-scope', (PR, '''				if hold != nil && *hold != '`' {
					i++
				}''', '''				i++'''))
v('C18', 'text-of-percent-v', 'c18.text-of', (F, '''	case float64:
		return strconv.FormatFloat(value, 'f', -1, 64)
	case float32:''', '''	case float32:'''))
v('C18', 'elementat-empty-is-error', 'c18.index-contracts', (F, '''	if len(*slice) == 0 {
		return nil, nil
	}
	indexRaw, err''', '''	indexRaw, err'''))
v('C18', 'gob-id-not-primed', 'c18.hash-stable', (F, '	_ = gob.NewEncoder(io.Discard).Encode(struct{ Data any }{})\n', '	_ = io.Discard\n'))
v('C14', 'spinasync-never-signals', 'c10.go-closure', (P, '''				defer query.wg.Done()
				defer query.reportPanic()
				_, err := function(query, current, nil, slice)''', '''				defer query.reportPanic()
				_, err := function(query, current, nil, slice)'''))
v('C10', 'async-never-signals', 'c10.go-closure', (P, '''				defer query.wg.Done()
				defer query.reportPanic()
				value, err := function(query, current, nil, slice)''', '''				defer query.reportPanic()
				value, err := function(query, current, nil, slice)'''))

# ---- round 9: the Go-language rules under a property other than the one whose seed introduced them
v('C16', 'go-shadow: the quoted string goes into a shadow of str', 'go.shadow-stale', (Z, '''				str = QuoteString(arg)
''', '''				str := QuoteString(arg)
				_ = str
'''))
v('C16', 'written text padded with blanks', 'c16.accounting', (Z, '''			argUse[argIdx] = true
''', '''			argUse[argIdx] = true
			str = " " + str + " "
'''))
v('C06', 'go-iface-compare: Distinct skips a repeat of the item before it', 'go.iface-compare', (S, '''			for _, item := range data {
				sha256 := sha256.New()''', '''			for index, item := range data {
				if index > 0 && item == data[index-1] {
					continue
				}
				sha256 := sha256.New()'''))
v('C13', 'callback called without the nil test (reportPanic)', 'c10.callback-guarded', (P, '''		if query.options.errors != nil {
			query.options.errors(RecoveredError(r))
		}''', '''		query.options.errors(RecoveredError(r))'''))
v('C04', 'parallel hash join probes every other key', 'c04.every-key-probed', (J, '''	for lk := range l.Rows {
		wg.Add(1)
		go func(lk string) {''', '''	for lk := range l.Rows {
		if len(lk)%2 == 1 {
			continue
		}
		wg.Add(1)
		go func(lk string) {'''))

# ---- round 11
v('C03', 'setpath-looks-up-in-the-row', 'c03.path-walk', (P, 'if existing, ok := node[part].(Map); ok {', 'if existing, ok := row[part].(Map); ok {'))
v('C12', 'setpath-looks-up-in-the-row', 'c03.path-walk', (P, 'if existing, ok := node[part].(Map); ok {', 'if existing, ok := row[part].(Map); ok {'))
v('C18', 'if-tests-the-wrong-branch-value', 'go.nil-test-sibling', (F, """	if whenFalse == nil {
		return nil, nil
	}
	return *whenFalse, nil""", """	if whenTrue == nil {
		return nil, nil
	}
	return *whenFalse, nil"""))
v('C16', 'slash-slash-enters-block-comment-state', 'c16.lexer-tokenizer', (Z, """			if nextRune == '/' {
				l.pos += width
				return oneLineCommentState""", """			if nextRune == '/' {
				l.pos += width
				return multilineCommentState"""))
v('C20', 'dual-projects-the-source-rows', 'exec.dual-where', (P, 'rs, err := ExecSelect(query, from)', 'rs, err := ExecSelect(query, query.from)'))
v('C02', 'dual-projects-the-source-rows', 'exec.dual-where', (P, 'rs, err := ExecSelect(query, from)', 'rs, err := ExecSelect(query, query.from)'))

v('C04', 'tocatalog-hands-idents-exchanged', 'c04.side-plumbing', (J, 'columns, err := extractJoinColumns(ident, identRight, joinExpr)', 'columns, err := extractJoinColumns(identRight, ident, joinExpr)'))
v('C04', 'newjoin-ident-fields-crossed', 'c04.side-plumbing', (J, 'join.leftIdent, join.rightIdent = leftIdent, rightIdent', 'join.leftIdent, join.rightIdent = rightIdent, leftIdent'))
v('C04', 'buildjoin-idents-exchanged', 'c04.side-plumbing', (P, 'rs, err := ExecJoin(query, left.from, right.from, left.ident, right.ident,', 'rs, err := ExecJoin(query, left.from, right.from, right.ident, left.ident,'))
v('C04', 'bucket-restarted-for-a-present-key', 'c04.bucket-once', (J, """		if _, ok := hashedTable.Keys[hash]; !ok {
			hashedTable.Rows[hash] = make([]*any, 0)""", """		if _, ok := hashedTable.Rows[hash]; ok {
			hashedTable.Rows[hash] = make([]*any, 0)"""))
v('C12', 'plain-document-copy-stops-at-an-engine-entry', 'c12.plain-document', (H, """		if _, ok := value.(CteEvaluation); ok || key == "<-" {
			continue
		}
		copy[key] = value""", """		if _, ok := value.(CteEvaluation); ok || key == "<-" {
			break
		}
		copy[key] = value"""))
v('C18', 'daterange-upper-bound-under-the-lower-bounds-test', 'go.nil-test-sibling/indexed', (F, """	if args[1] != nil {
		to = TextOf(args[1])""", """	if args[0] != nil {
		to = TextOf(args[1])"""))
