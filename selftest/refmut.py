"""Refactoring + breaking edit: a behaviour-preserving refactoring from /verif/refactorings is applied first, then ONE breaking
edit (regular expression, must match exactly once) to the refactored code. The property's check must still fire: this guards
against rules that stop alarming on refactored code because they no longer see anything (silent for the wrong reason).
R[pid] = [(name, refactoring dir, file, regex, replacement)]."""
R = {
 'C02': [
  ('table-arith: swapped operands', 'eval2-r3', 'plsql.go', r'return left - right \}', 'return right - left }'),
  ('table-arith: operator dropped from the table', 'eval2-r3', 'plsql.go', r'\n\tsqlparser.BitXorOp: [^\n]*\n', '\n'),
  ('inlined-literal: text trimmed', 'eval2-r4', 'plsql.go', r'return NeutalString\(expr.Val\), nil', 'return NeutalString(strings.TrimSpace(expr.Val)), nil'),
 ],
 'C18': [
  ('table-hash: constructors swapped', 'funcs2-r1', 'functions.go', r'"sha1":   sha1.New,\n\t"sha256": sha256.New', '"sha1":   sha256.New,\n\t"sha256": sha1.New'),
 ],
 'C03': [
  ('fold-helper: MIN starts from 0', 'funcs2-r2', 'functions.go', r'foldNumbers\(args, math.MaxFloat64, func', 'foldNumbers(args, 0, func'),
  ('fold-helper: MIN keeps the larger', 'funcs2-r2', 'functions.go', r'if number < min \{\n\t\t\treturn number', 'if number > min {\n\t\t\treturn number'),
  ('fold-helper: member count off by one', 'funcs2-r2', 'functions.go', r'return folded, allNull, len\(\*slice\), nil', 'return folded, allNull, len(*slice) - 1, nil'),
  ('fold-helper: NULL members converted', 'funcs2-r2', 'functions.go', r'\t\tif item == nil \{\n\t\t\tcontinue\n\t\t\}\n\t\tnumber, err := ToFloat64\(item\)\n\t\tif err != nil \{\n\t\t\treturn 0, false, 0, err', '\t\tnumber, err := ToFloat64(item)\n\t\tif err != nil {\n\t\t\treturn 0, false, 0, err'),
 ],
 'C12': [
  ('plain-document helpers: marker kept', 'eval2-r7', 'heplers.go', r'return ok \|\| key == "<-"', 'return ok'),
 ],
 'C10': [
  ('goroutine method: no recover', 'eval2-r5', 'plsql.go', r'\tdefer query.reportPanic\(\)\n\t_, err := function\(query, current, nil, args\)', '\t_, err := function(query, current, nil, args)'),
  ('goroutine method: Add dropped', 'eval2-r5', 'plsql.go', r'\t\t\tquery.wg.Add\(1\)\n\t\t\tgo query.fireAndForget\(function, current, slice, true\)', '\t\t\tgo query.fireAndForget(function, current, slice, true)'),
  ('goroutine method: Done not deferred', 'eval2-r5', 'plsql.go', r'\tif tracked \{\n\t\tdefer query.wg.Done\(\)\n\t\}\n\tdefer query.reportPanic\(\)', '\tdefer query.reportPanic()\n\tif tracked {\n\t\tquery.wg.Done()\n\t}'),
 ],
 'C19': [
  ('result record: first error never returned', 'joinsel2-r2', 'join.go', r'\tif result.firstErr != nil \{\n\t\treturn nil, result.firstErr\n\t\}\n\treturn result.rows, nil', '\treturn result.rows, nil'),
  ('result record: fail drops the error', 'joinsel2-r2', 'join.go', r'\tif p.firstErr == nil \{\n\t\tp.firstErr = err\n\t\}\n', '\t_ = err\n'),
  ('post-processor helper: error skipped', 'pipeline2-r4', 'plsql.go', r'\t\tif err := postProcessor\(\); err != nil \{\n\t\t\treturn err\n\t\t\}\n\t\}\n\treturn nil', '\t\tif err := postProcessor(); err != nil {\n\t\t\tcontinue\n\t\t}\n\t}\n\treturn nil'),
 ],
 'C14': [
  ('post-processor helper: not run', 'pipeline2-r4', 'plsql.go', r'\tif err := query.runPostProcessors\(\); err != nil \{\n\t\treturn nil, err\n\t\}\n\treturn rs, nil', '\treturn rs, nil'),
  ('pending column: other row', 'pipeline2-r3', 'plsql.go', r'column := pendingColumn\{row: data, name: name, value: pending\}', 'column := pendingColumn{row: current, name: name, value: pending}'),
  ('pending column: pointer stored', 'pipeline2-r3', 'plsql.go', r'\tcolumn.row\[column.name\] = value\n', '\tcolumn.row[column.name] = column.value\n\t_ = value\n'),
  ('pending column: not registered', 'pipeline2-r3', 'plsql.go', r'query.postProcessors = append\(query.postProcessors, column.settle\)', '_ = column.settle'),
 ],
 'C05': [
  ('window helper: limit not clamped', 'pipeline2-r5', 'plsql.go', r'\tif limit >= len\(rs\) \{\n\t\tlimit = len\(rs\)\n\t\}\n\treturn rs\[:limit\]', '\treturn rs[:limit]'),
  ('window helper: offset test off by one', 'pipeline2-r5', 'plsql.go', r'\tif offset >= len\(rs\) \{\n\t\treturn nil\n\t\}\n\trs = rs\[offset:\]', '\tif offset > len(rs) {\n\t\treturn nil\n\t}\n\trs = rs[offset+0:]'),
 ],
 'C01': [
  ('scan helper: early success return', 'pipeline2-r5', 'plsql.go', r'\t\t\t\tslice = append\(slice, current\)\n\t\t\t\}\n\t\t\}\n\t\}\n\treturn slice, nil', '\t\t\t\tslice = append(slice, current)\n\t\t\t\tif len(slice) > 1000000 {\n\t\t\t\t\treturn slice, nil\n\t\t\t\t}\n\t\t\t}\n\t\t}\n\t}\n\treturn slice, nil'),
  ('scan helper: returns the source', 'pipeline2-r5', 'plsql.go', r'\t\t\t\tslice = append\(slice, current\)\n\t\t\t\}\n\t\t\}\n\t\}\n\treturn slice, nil', '\t\t\t\tslice = append(slice, current)\n\t\t\t}\n\t\t}\n\t}\n\treturn query.from, nil'),
  ('scan helper: stage fed with the source', 'pipeline2-r5', 'plsql.go', r'rs, err := ExecGroupBy\(query, slice\)', '_ = slice\n\trs, err := ExecGroupBy(query, query.from)'),
 ],
 'C13': [
  ('worklist: only the left operand pushed', 'joinsel2-r4', 'join.go', r'\t\tcase \*sqlparser.AndExpr:\n\t\t\tpending = append\(pending, e.Right, e.Left\)', '\t\tcase *sqlparser.AndExpr:\n\t\t\tpending = append(pending, e.Left)'),
  ('worklist: one operand unchecked', 'joinsel2-r4', 'join.go', r'\t\t\tif !left \|\| !right \{\n\t\t\t\treturn false\n\t\t\t\}', '\t\t\tif !left {\n\t\t\t\treturn false\n\t\t\t}\n\t\t\t_ = right'),
  ('worklist: function calls admitted', 'joinsel2-r4', 'join.go', r'\t\tcase sqlparser.BoolVal:\n\t\t\tcontinue\n\t\tdefault:\n\t\t\treturn false', '\t\tcase sqlparser.BoolVal:\n\t\t\tcontinue\n\t\tcase *sqlparser.FuncExpr:\n\t\t\tcontinue\n\t\tdefault:\n\t\t\treturn false'),
 ],
 'C09': [
  ('dimension loop: each skips a dimension', 'joinsel2-r7', 'selector.go', r'rs, err := SelectDimension\(item, dimensions\)', 'rs, err := SelectDimension(item, dimensions[1:])'),
  ('dimension loop: two dimensions dropped', 'joinsel2-r7', 'selector.go', r'\t\tindex := dimensions\[0\]\n\t\tdimensions = dimensions\[1:\]', '\t\tindex := dimensions[0]\n\t\tdimensions = dimensions[2:]'),
 ],
}
