"""Refactoring + breaking edit: a behaviour-preserving refactoring from /verif/refactorings is applied first, then ONE breaking
edit (regular expression, must match exactly once) to the refactored code. The property's check must still fire: this guards
against rules that stop alarming on refactored code because they no longer see anything (silent for the wrong reason).
R[pid] = [(name, refactoring dir, file, regex, replacement)]."""
R = {
 'C01': [
  ('scan helper: early success return', 'pipeline2-r5', 'plsql.go', '\\t\\t\\t\\tslice = append\\(slice, current\\)\\n\\t\\t\\t\\}\\n\\t\\t\\}\\n\\t\\}\\n\\treturn slice, nil', '\t\t\t\tslice = append(slice, current)\n\t\t\t\tif len(slice) > 1000000 {\n\t\t\t\t\treturn slice, nil\n\t\t\t\t}\n\t\t\t}\n\t\t}\n\t}\n\treturn slice, nil'),
  ('scan helper: returns the source', 'pipeline2-r5', 'plsql.go', '\\t\\t\\t\\tslice = append\\(slice, current\\)\\n\\t\\t\\t\\}\\n\\t\\t\\}\\n\\t\\}\\n\\treturn slice, nil', '\t\t\t\tslice = append(slice, current)\n\t\t\t}\n\t\t}\n\t}\n\treturn query.from, nil'),
  ('scan helper: stage fed with the source', 'pipeline2-r5', 'plsql.go', 'rs, err := ExecGroupBy\\(query, slice\\)', '_ = slice\n\trs, err := ExecGroupBy(query, query.from)'),
 ],
 'C02': [
  ('table-arith: swapped operands', 'eval2-r3', 'plsql.go', 'return left - right \\}', 'return right - left }'),
  ('table-arith: operator dropped from the table', 'eval2-r3', 'plsql.go', '\\n\\tsqlparser.BitXorOp: [^\\n]*\\n', '\n'),
  ('inlined-literal: text trimmed', 'eval2-r4', 'plsql.go', 'return NeutalString\\(expr.Val\\), nil', 'return NeutalString(strings.TrimSpace(expr.Val)), nil'),
 ],
 'C03': [
  ("group records: member list grown on the input's storage", 'pipeline5-r1', 'plsql.go', 'rows: append\\(make\\(\\[\\]any, 0\\), item\\)\\}', 'rows: append(current[:0], item)}'),
  ('group records: every group gets the whole input', 'pipeline5-r1', 'plsql.go', 'current\\["\\*"\\] = entry.rows', 'current["*"] = groups[0].rows'),
  ('fold-helper: MIN starts from 0', 'funcs2-r2', 'functions.go', 'foldNumbers\\(args, math.MaxFloat64, func', 'foldNumbers(args, 0, func'),
  ('fold-helper: MIN keeps the larger', 'funcs2-r2', 'functions.go', 'if number < min \\{\\n\\t\\t\\treturn number', 'if number > min {\n\t\t\treturn number'),
  ('fold-helper: member count off by one', 'funcs2-r2', 'functions.go', 'return folded, allNull, len\\(\\*slice\\), nil', 'return folded, allNull, len(*slice) - 1, nil'),
  ('fold-helper: NULL members converted', 'funcs2-r2', 'functions.go', '\\t\\tif item == nil \\{\\n\\t\\t\\tcontinue\\n\\t\\t\\}\\n\\t\\tnumber, err := ToFloat64\\(item\\)\\n\\t\\tif err != nil \\{\\n\\t\\t\\treturn 0, false, 0, err', '\t\tnumber, err := ToFloat64(item)\n\t\tif err != nil {\n\t\t\treturn 0, false, 0, err'),
  ('fold-helper (found flag): flag set only for non-zero numbers', 'funcs3-r1', 'functions.go', '\\t\\tacc = step\\(acc, number\\)\\n\\t\\tfound = true', '\t\tacc = step(acc, number)\n\t\tfound = found || number != 0'),
  ('fold-helper (found flag): MAX ignores the flag', 'funcs3-r1', 'functions.go', '\\tif err != nil \\|\\| !found \\{\\n\\t\\treturn nil, err\\n\\t\\}\\n\\treturn max, nil', '\tif err != nil {\n\t\treturn nil, err\n\t}\n\t_ = found\n\treturn max, nil'),
  ('registration table: min and max swapped', 'funcs4-r8', 'functions.go', '\\{"min", MinFunc, true\\},\\n\\t\\t\\{"max", MaxFunc, true\\},', '{"min", MaxFunc, true},\n\t\t{"max", MinFunc, true},'),
 ],
 'C04': [
  ('equi-analysis worklist: only the left operand queued', 'joinsel3-r8', 'join.go', 'pending = append\\(pending, e.Right, e.Left\\)', 'pending = append(pending, e.Left)'),
  ('equi-analysis worklist: only != rejected', 'joinsel3-r8', 'join.go', '\\t\\t\\t\\tif e.Operator != sqlparser.EqualOp \\{\\n\\t\\t\\t\\t\\treturn false\\n\\t\\t\\t\\t\\}\\n', '\t\t\t\tif e.Operator == sqlparser.NotEqualOp {\n\t\t\t\t\treturn false\n\t\t\t\t}\n'),
  ('key builder: length without terminator', 'joinsel3-r4', 'join.go', "\\t\\t\\tkey.WriteByte\\(':'\\)\\n", ''),
  ('key builder: separator instead of length', 'joinsel3-r4', 'join.go', "\\t\\t\\tkey.WriteString\\(strconv.Itoa\\(len\\(text\\)\\)\\)\\n\\t\\t\\tkey.WriteByte\\(':'\\)\\n", '\t\t\tkey.WriteByte(58)\n\t\t\t_ = strconv.Itoa\n'),
  ('[]byte key: length without terminator', 'joinsel4-r4', 'join.go', "\\t\\t\\tkey = append\\(key, ':'\\)\\n", ''),
 ],
 'C05': [
  ('limitWindow: limit not clamped', 'pipeline5-r2', 'plsql.go', 'return rows\\[:min\\(limit, len\\(rows\\)\\)\\]', 'return rows[:min(limit, cap(rows))]'),
  ('window helper: limit not clamped', 'pipeline2-r5', 'plsql.go', '\\tif limit >= len\\(rs\\) \\{\\n\\t\\tlimit = len\\(rs\\)\\n\\t\\}\\n\\treturn rs\\[:limit\\]', '\treturn rs[:limit]'),
  ('window helper: offset test off by one', 'pipeline2-r5', 'plsql.go', '\\tif offset >= len\\(rs\\) \\{\\n\\t\\treturn nil\\n\\t\\}\\n\\trs = rs\\[offset:\\]', '\tif offset > len(rs) {\n\t\treturn nil\n\t}\n\trs = rs[offset+0:]'),
  ('rowSorter: i and j swapped', 'pipeline3-r4', 'sort.go', 'rs, err := Compare\\(sorter.rows, i, j, sorter.orderBy\\)', 'rs, err := Compare(sorter.rows, j, i, sorter.orderBy)'),
  ('rowSorter: sorts by the first key only', 'pipeline3-r4', 'sort.go', 'sorter := rowSorter\\{rows: slice, orderBy: orderBy\\}', 'sorter := rowSorter{rows: slice, orderBy: orderBy[:1]}'),
 ],
 'C07': [
  ('lazyCte factory: rows stored as a plain value', 'pipeline5-r7', 'plsql.go', '\\t\\tregistry\\[name\\] = CteEvaluation\\(func\\(\\) \\(any, error\\) \\{\\n\\t\\t\\treturn rs, nil\\n\\t\\t\\}\\)\\n', '\t\tregistry[name] = rs\n'),
  ("lazyCte factory: memo stored into the inner query's data", 'pipeline5-r7', 'plsql.go', '\\t\\tregistry\\[name\\] = CteEvaluation\\(func\\(\\) \\(any, error\\) \\{\\n\\t\\t\\treturn rs, nil', '\t\tquery.data[name] = CteEvaluation(func() (any, error) {\n\t\t\treturn rs, nil'),
  ('waitFor helper: EXISTS no longer chains the nested wait group', 'eval5-r2', 'plsql.go', '\\tquery.waitFor\\(q\\)\\n', ''),
  ('cteThunk record: rows stored as a plain value', 'eval3-r7', 'plsql.go', '\\tthunk.data\\[thunk.cte.ID.String\\(\\)\\] = CteEvaluation\\(func\\(\\) \\(any, error\\) \\{\\n\\t\\treturn rs, nil\\n\\t\\}\\)\\n', '\tthunk.data[thunk.cte.ID.String()] = rs\n'),
  ('cteThunk record: the evaluating thunk put back', 'eval3-r7', 'plsql.go', '\\tthunk.data\\[thunk.cte.ID.String\\(\\)\\] = CteEvaluation\\(func\\(\\) \\(any, error\\) \\{\\n\\t\\treturn rs, nil\\n\\t\\}\\)\\n', '\tthunk.data[thunk.cte.ID.String()] = CteEvaluation(thunk.evaluate)\n'),
 ],
 'C08': [
  ('accumulator mix: empty arrays kept', 'joinsel4-r5', 'selector.go', 'if array, ok := item.\\(\\[\\]any\\); ok \\{\\n\\t\\t\\tslice = appendMixed\\(slice, array\\)', 'if array, ok := item.([]any); ok && len(array) > 0 {\n\t\t\tslice = appendMixed(slice, array)'),
  ('accumulator mix: accumulates onto the data', 'joinsel4-r5', 'selector.go', 'return appendMixed\\(make\\(\\[\\]any, 0\\), data\\)', 'return appendMixed(data[:0], data)'),
 ],
 'C09': [
  ('splitter with index arithmetic: the next part starts one byte too far', 'joinsel5-r1', 'selector.go', 'start = i \\+ 1', 'start = i + 2'),
  ('dimension loop: each skips a dimension', 'joinsel2-r7', 'selector.go', 'rs, err := SelectDimension\\(item, dimensions\\)', 'rs, err := SelectDimension(item, dimensions[1:])'),
  ('dimension loop: two dimensions dropped', 'joinsel2-r7', 'selector.go', '\\t\\tindex := dimensions\\[0\\]\\n\\t\\tdimensions = dimensions\\[1:\\]', '\t\tindex := dimensions[0]\n\t\tdimensions = dimensions[2:]'),
 ],
 'C10': [
  ('lazyCte factory: cycle guard dropped', 'pipeline5-r7', 'plsql.go', '\\t\\tregistry\\[name\\] = CteEvaluation\\(func\\(\\) \\(any, error\\) \\{\\n\\t\\t\\treturn nil, EXPECTATION_FAILED[^\\n]*\\n\\t\\t\\}\\)\\n', ''),
  ('goroutine method: no recover', 'eval2-r5', 'plsql.go', '\\tdefer query.reportPanic\\(\\)\\n\\t_, err := function\\(query, current, nil, args\\)', '\t_, err := function(query, current, nil, args)'),
  ('goroutine method: Add dropped', 'eval2-r5', 'plsql.go', '\\t\\t\\tquery.wg.Add\\(1\\)\\n\\t\\t\\tgo query.fireAndForget\\(function, current, slice, true\\)', '\t\t\tgo query.fireAndForget(function, current, slice, true)'),
  ('goroutine method: Done not deferred', 'eval2-r5', 'plsql.go', '\\tif tracked \\{\\n\\t\\tdefer query.wg.Done\\(\\)\\n\\t\\}\\n\\tdefer query.reportPanic\\(\\)', '\tdefer query.reportPanic()\n\tif tracked {\n\t\tquery.wg.Done()\n\t}'),
  ('cteThunk record: guard not installed', 'eval3-r7', 'plsql.go', '\\tthunk.data\\[thunk.cte.ID.String\\(\\)\\] = CteEvaluation\\(thunk.cycle\\)\\n', ''),
  ('joinCollector: recover handler dropped', 'joinsel3-r2', 'join.go', '\\tdefer collector.wg.Done\\(\\)\\n\\tdefer collector.recovered\\(\\)\\n\\tcollector.collect\\(j.JoinMatchFunc', '\tdefer collector.wg.Done()\n\tcollector.collect(j.JoinMatchFunc'),
 ],
 'C12': [
  ('plain-document helpers: marker kept', 'eval2-r7', 'heplers.go', 'return ok \\|\\| key == "<-"', 'return ok'),
 ],
 'C13': [
  ('worklist: only the left operand pushed', 'joinsel2-r4', 'join.go', '\\t\\tcase \\*sqlparser.AndExpr:\\n\\t\\t\\tpending = append\\(pending, e.Right, e.Left\\)', '\t\tcase *sqlparser.AndExpr:\n\t\t\tpending = append(pending, e.Left)'),
  ('worklist: one operand unchecked', 'joinsel2-r4', 'join.go', '\\t\\t\\tif !left \\|\\| !right \\{\\n\\t\\t\\t\\treturn false\\n\\t\\t\\t\\}', '\t\t\tif !left {\n\t\t\t\treturn false\n\t\t\t}\n\t\t\t_ = right'),
  ('worklist: function calls admitted', 'joinsel2-r4', 'join.go', '\\t\\tcase sqlparser.BoolVal:\\n\\t\\t\\tcontinue\\n\\t\\tdefault:\\n\\t\\t\\treturn false', '\t\tcase sqlparser.BoolVal:\n\t\t\tcontinue\n\t\tcase *sqlparser.FuncExpr:\n\t\t\tcontinue\n\t\tdefault:\n\t\t\treturn false'),
  ('joinCollector: rows appended without the mutex', 'joinsel3-r2', 'join.go', '\\tcase ok:\\n\\t\\t\\{\\n\\t\\t\\tcollector.mut.Lock\\(\\)\\n\\t\\t\\tcollector.slice = append\\(collector.slice, matches...\\)\\n\\t\\t\\tcollector.mut.Unlock\\(\\)', '\tcase ok:\n\t\t{\n\t\t\tcollector.slice = append(collector.slice, matches...)'),
 ],
 'C14': [
  ('detachedCall: ASYNC never fills its slot', 'eval5-r1', 'plsql.go', '\\t\\*slot = value\\n', '\t_ = value\n'),
  ('detachedCall: SPINASYNC not signalled', 'eval5-r1', 'plsql.go', 'func \\(call \\*detachedCall\\) discardAndSignal\\(\\) \\{\\n\\tdefer call.query.wg.Done\\(\\)\\n', 'func (call *detachedCall) discardAndSignal() {\n'),
  ('post-processor helper: not run', 'pipeline2-r4', 'plsql.go', '\\tif err := query.runPostProcessors\\(\\); err != nil \\{\\n\\t\\treturn nil, err\\n\\t\\}\\n\\treturn rs, nil', '\treturn rs, nil'),
  ('pending column: other row', 'pipeline2-r3', 'plsql.go', 'column := pendingColumn\\{row: data, name: name, value: pending\\}', 'column := pendingColumn{row: current, name: name, value: pending}'),
  ('pending column: pointer stored', 'pipeline2-r3', 'plsql.go', '\\tcolumn.row\\[column.name\\] = value\\n', '\tcolumn.row[column.name] = column.value\n\t_ = value\n'),
  ('pending column: not registered', 'pipeline2-r3', 'plsql.go', 'query.postProcessors = append\\(query.postProcessors, column.settle\\)', '_ = column.settle'),
  ('awaitCall record: no second wait', 'eval4-r1', 'plsql.go', '\\tcall.query.wg.Wait\\(\\)\\n', ''),
 ],
 'C15': [
  ('Compare form C: right operand not tested', 'funcs5-r8', 'compare/compare.go', 'if isNumber\\(a\\) && isNumber\\(b\\) \\{', 'if isNumber(a) {'),
  ('Compare form C: int is not a number', 'funcs5-r8', 'compare/compare.go', 'case int, int32, int64, int16, int8, uint, uint32, uint64, uint16, byte, float32, float64:\\n\\t\\treturn true', 'case int32, int64, int16, int8, uint, uint32, uint64, uint16, byte, float32, float64:\n\t\treturn true'),
  ('non-generic compare: left operand truncated', 'funcs3-r3', 'compare/compare.go', 'return Cmp\\(As\\[float64\\]\\(a\\), t\\)', 'return Cmp(As[int64](a), t)'),
  ('non-generic compare: float32 dropped from the dispatch', 'funcs3-r3', 'compare/compare.go', 'case int, int32, int64, int16, int8, uint, uint64, uint32, uint16, byte, float32, float64:\\n\\t\\t\\{\\n\\t\\t\\treturn compare\\(a, b\\)', 'case int, int32, int64, int16, int8, uint, uint64, uint32, uint16, byte, float64:\n\t\t{\n\t\t\treturn compare(a, b)'),
  ('non-generic compare: operands swapped and negated', 'funcs3-r3', 'compare/compare.go', 'return Cmp\\(As\\[float64\\]\\(a\\), t\\)', 'return -Cmp(As[float64](t), a)'),
  ('form B: signs swapped', 'funcs4-r6', 'compare/compare.go', '\\tif x > y \\{\\n\\t\\treturn 1\\n\\t\\}\\n\\treturn -1', '\tif x > y {\n\t\treturn -1\n\t}\n\treturn 1'),
  ('form B: uint64 truncated', 'funcs4-r6', 'compare/compare.go', '\\tcase uint64:\\n\\t\\treturn float64\\(t\\), true', '\tcase uint64:\n\t\treturn float64(int32(t)), true'),
  ('form B: float32 not a number', 'funcs4-r6', 'compare/compare.go', '\\tcase float32:\\n\\t\\treturn float64\\(t\\), true\\n', ''),
  ('form B: texts in the wrong order', 'funcs4-r6', 'compare/compare.go', '\\ty, ok := number\\(b\\)\\n\\tif !ok \\{\\n\\t\\treturn strings.Compare\\(text\\(a\\), text\\(b\\)\\)', '\ty, ok := number(b)\n\tif !ok {\n\t\treturn strings.Compare(text(b), text(a))'),
 ],
 'C16': [
  ('quotedState: backslash escapes inside backticks', 'funcs5-r4', 'sanitizer/sanitizer.go', "return quotedState\\(l, '`', false\\)", "return quotedState(l, '`', true)"),
  ('skipPast: a one-line comment ends at CR LF only', 'funcs5-r6', 'sanitizer/sanitizer.go', 'return skipPast\\(l, "\\\\n"\\)', 'return skipPast(l, "\\r\\n")'),
  ('unused scan by slices.Index: result ignored', 'funcs4-r4', 'sanitizer/sanitizer.go', '\\tif i := slices.Index\\(argUse, false\\); i >= 0 \\{\\n\\t\\treturn "", fmt.Errorf\\("unused argument: %d", i\\)\\n\\t\\}\\n', '\t_ = slices.Index(argUse, false)\n'),
  ('merged quoted state: backslash arm removed', 'funcs4-r5', 'sanitizer/sanitizer.go', '\\t\\tcase .\\\\\\\\.:\\n\\t\\t\\t// the parser honours backslash escapes: the next rune is part of the literal\\n\\t\\t\\t_, width = utf8.DecodeRuneInString\\(l.src\\[l.pos:\\]\\)\\n\\t\\t\\tl.pos \\+= width\\n\\t\\tcase quote:', '\t\tcase quote:'),
  ('merged quoted state: double-quote state ends at the single quote', 'funcs4-r5', 'sanitizer/sanitizer.go', 'func doubleQuoteState\\(l \\*sqlLexer\\) stateFn \\{\\n\\treturn quotedState\\(l, .".\\)', 'func doubleQuoteState(l *sqlLexer) stateFn {\n\treturn quotedState(l, 39)'),
 ],
 'C17': [
  ('quoted-region helper: ends at the escaped byte', 'funcs4-r3', 'processors.go', '\\t\\t\\tbuffer.WriteByte\\(str\\[i\\+1\\]\\)\\n\\t\\t\\ti\\+\\+\\n\\t\\t\\}\\n\\t\\}\\n\\treturn i - 1, nil', '\t\t\tbuffer.WriteByte(str[i+1])\n\t\t\tc = str[i+1]\n\t\t\ti++\n\t\t}\n\t}\n\treturn i - 1, nil'),
 ],
 'C18': [
  ('decoder table: base32 decoded with another alphabet', 'funcs5-r3', 'functions.go', 'return base32.StdEncoding.DecodeString, nil', 'return base32.HexEncoding.DecodeString, nil'),
  ('table-hash: constructors swapped', 'funcs2-r1', 'functions.go', '"sha1":   sha1.New,\\n\\t"sha256": sha256.New', '"sha1":   sha256.New,\n\t"sha256": sha1.New'),
  ('envelope helper: gob id no longer primed', 'funcs3-r8', 'functions.go', '\\t_ = encodeEnvelope\\(io.Discard, nil\\)\\n', ''),
 ],
 'C19': [
  ('parallelMatches: result forgets the first error', 'joinsel5-r3', 'join.go', '\\tif p.firstErr != nil \\{\\n\\t\\treturn nil, p.firstErr\\n\\t\\}\\n\\treturn p.rows, nil', '\treturn p.rows, nil'),
  ('result record: first error never returned', 'joinsel2-r2', 'join.go', '\\tif result.firstErr != nil \\{\\n\\t\\treturn nil, result.firstErr\\n\\t\\}\\n\\treturn result.rows, nil', '\treturn result.rows, nil'),
  ('result record: fail drops the error', 'joinsel2-r2', 'join.go', '\\tif p.firstErr == nil \\{\\n\\t\\tp.firstErr = err\\n\\t\\}\\n', '\t_ = err\n'),
  ('post-processor helper: error skipped', 'pipeline2-r4', 'plsql.go', '\\t\\tif err := postProcessor\\(\\); err != nil \\{\\n\\t\\t\\treturn err\\n\\t\\t\\}\\n\\t\\}\\n\\treturn nil', '\t\tif err := postProcessor(); err != nil {\n\t\t\tcontinue\n\t\t}\n\t}\n\treturn nil'),
  ('rowSorter: comparator error ignored', 'pipeline3-r4', 'sort.go', '\\tif err != nil \\{\\n\\t\\tpanic\\(err\\)\\n\\t\\}\\n\\treturn rs\\n', '\t_ = err\n\treturn rs\n'),
  ('joinCollector: error not kept', 'joinsel3-r2', 'join.go', '\\t\\t\\tcollector.mut.Lock\\(\\)\\n\\t\\t\\tif collector.firstErr == nil \\{\\n\\t\\t\\t\\tcollector.firstErr = err\\n\\t\\t\\t\\}\\n\\t\\t\\tcollector.mut.Unlock\\(\\)', '\t\t\t_ = err'),
  ('joinCollector: first error never returned', 'joinsel3-r2', 'join.go', '\\tif collector.firstErr != nil \\{\\n\\t\\treturn nil, collector.firstErr\\n\\t\\}\\n\\treturn collector.slice, nil', '\treturn collector.slice, nil'),
 ],
 'C20': [
  ('registration table: setvar not immediate', 'funcs4-r8', 'functions.go', '\\{"setvar", SetVarFunc, true\\}', '{"setvar", SetVarFunc, false}'),
 ],
}
